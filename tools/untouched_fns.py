#!/usr/bin/env python3
"""For each property: functions (in the files the property is anchored in) that no seeded change has touched yet.
Writes /tmp/untouched_<ID>.txt (used to steer the next round of seed authors towards unmutated code)."""
import glob, re, collections, os, json
root = '/repo/'
hunks = collections.defaultdict(list)
for p in glob.glob('/verif/seeded/*/patch.diff'):
    cur = None
    for l in open(p, errors='replace'):
        if l.startswith('+++ b/'): cur = l[6:].strip()
        m = re.match(r'@@ -(\d+),?(\d*) ', l)
        if m and cur:
            a = int(m.group(1)); n = int(m.group(2) or 1)
            hunks[cur].append((a + 3, a + max(n - 3, 1)))
def untouched(rel):
    f = root + rel
    if not os.path.exists(f): return []
    lines = open(f).read().split('\n')
    fns = []
    for i, l in enumerate(lines):
        m = re.match(r'\s*(pub(\([a-z]+\))? )?(const )?(unsafe )?fn (\w+)', l)
        if m and 'unchecked' not in m.group(5) and not m.group(5).startswith('verif_'): fns.append((i + 1, m.group(5)))
    out = []
    for k, (ln, name) in enumerate(fns):
        # body end: next fn start or a crude brace match
        end = fns[k + 1][0] - 1 if k + 1 < len(fns) else len(lines)
        depth = 0; started = False
        for j in range(ln - 1, end):
            depth += lines[j].count('{') - lines[j].count('}')
            if '{' in lines[j]: started = True
            if started and depth <= 0: end = j + 1; break
        if end - ln < 4: continue
        c = sum(1 for (a, b) in hunks.get(rel, []) if not (b < ln or a > end))
        if c == 0: out.append("%s (line %d)" % (name, ln))
    return out
for l in open('/verif/properties.jsonl'):
    j = json.loads(l)
    files = list(j['anchors'].get('files', []))
    txt = []
    for rel in files:
        u = untouched(rel)
        if u: txt.append("%s: %s" % (rel, ", ".join(u)))
    open('/tmp/untouched_%s.txt' % j['id'], 'w').write("\n".join(txt))
    print(j['id'], sum(len(t.split(', ')) for t in txt))
