#!/usr/bin/env python3
"""Generates /verif/MANIFEST.json from the table below (keeps it schema-valid at all times)."""
import json, os, sys

VERIF = os.path.dirname(os.path.dirname(os.path.abspath(__file__)))

# id -> (engine, category, technique, level text, level note, design ref)
CHECKS = {
 "C01": ("E-LOCKSTEP", "model_checking",
         "bounded-exhaustive lock-step enumeration of word / byte sequences on the real Generator against a declarative CTPH reference (every prefix compared)",
         "Every sequence of the stated families (all sequences <=3 over a 44-symbol alphabet of trigger words, corner words with extreme / zero rolling-hash values and single bytes, from fresh, reused and zero-prefix starts; all pairs with the total declared first or between the chunks and every update form last; declarations around piece-rich data followed by long zero tails; run-structured two / three segment sequences with every count 1..66; all byte strings over {00,01,FF} to length 9/11; every constant byte and short pattern at every length) is fed through rotating update forms and additionally as ONE slice and through hash_buf; all three finalizations are compared with the reference after every step.  Reaches block index 30, bhidx_start 30, the fork limit and the last-piece hash.",
         "Trusted: refmodel::ctph (no fork / elimination / hint; bound to 472 libfuzzy vectors + 2 multi-GiB libfuzzy vectors on every run); hook H1 for zero-prefix starts (validated at start-up).  Inputs outside the families are not covered.",
         "DESIGN.md §4 C01"),
 "C02": ("E-ENUM", "model_checking",
         "bounded-exhaustive enumeration of hash pairs through up to 19 comparison entry points against the ssdeep score formula (DP edit distance + naive 7-gram scan)",
         "All 31x31 block-size pairs x 24 content templates, and every single edit (strided double edits) of base strings of length {7,8,31,32,33,63,64} under all three block-size relations and logs {0..5,29,30}, each through the string function (raw / normalized / mixed spellings), hash-to-hash compare, and the reusable target initialised from short / long / dual operands (dirty and fresh), plus compare_near_eq / compare_unequal* when their preconditions hold; a target holding a long-only hash against short and short-dual operands (and the reverse) through all of these.",
         "Trusted: refmodel::score (textbook DP, naive scan, formula, cap; bound to the README scores 46 and 88).  Pairs outside the families are not covered.",
         "DESIGN.md §4 C02"),
 "C03": ("E-STATE", "model_checking",
         "explicit-state search (stateright BFS) over (position, real Generator) under all chunked update calls; closed per byte string; deviation-bounded for long strings; scripted-reader enumeration for hash_stream",
         "For each byte string X every history of update / update_by_iter / += / update_by_byte calls over the chunk menu is covered (closure regime: any number of calls), with the observables compared with the reference in every state and finalization required to leave the state unchanged; longer strings with <= 2 (thorough 3) chunked calls among single-byte calls; hash_stream under every pattern of <= 2 short reads.",
         "Trusted: refmodel::ctph; the Generator's derive(Debug) rendering is complete (state key, 128-bit hash of it).  Per-X result: other byte strings are covered only by the chosen X set.",
         "DESIGN.md §4 C03"),
 "C04": ("E-ENUM", "model_checking",
         "bounded-exhaustive enumeration of texts with 0 / 1 / 2 byte-level deviations through every parse entry point of all six types, default and strict parser builds, against a left-to-right scanner",
         "1.45 M distinct texts (grammar products + every single-byte insert / replace / delete / truncate of strided seeds; pairs of edits in thorough) x 6 types x 4 entry points: no panic, accept <=> grammar, decoded content, end index, index untouched on error, error origin, admissible kind.",
         "Trusted: refmodel::text::parse (60 lines).  The error kind is only required to be one of the conditions the offending field exhibits; offsets are hints.",
         "DESIGN.md §4 C04"),
 "C05": ("E-ENUM", "model_checking",
         "bounded-exhaustive enumeration of hash objects x buffer lengths and of accepted texts against a reference formatter",
         "Every object of the corpus HASH(T) of the four plain types: to_string / Display / String::from / store_into_bytes agree with the reference; buffers of every length 0..max+8 (strided subset + near-capacity objects; border lengths for the rest): too small => Err and buffer untouched; round trip; every accepted C04 text re-formats to itself (raw types) or its run-collapsed form.",
         "Trusted: refmodel::text::format, refmodel::normalize.",
         "DESIGN.md §4 C05"),
 "C06": ("E-ENUM", "model_checking",
         "bounded-exhaustive enumeration of raw hashes through eight normalization routes against run collapsing",
         "Runs of every length 1..64 at every position, adjacent runs, runs touching both ends: normalize / normalize_in_place / clone_normalized / From / from_raw_form / parse into the normalizing type / normalized part of a dual built from the object and from text all give the valid object full_eq the reference; idempotence; is_normalized <=> unchanged.",
         "Trusted: refmodel::normalize (10 lines).",
         "DESIGN.md §4 C06"),
 "C07": ("E-ENUM", "model_checking",
         "bounded-exhaustive enumeration of raw hashes through six dual-construction routes (incl. dirty objects) and all pairs of a shared-normal-form corpus",
         "Every raw hash of HASH (0..16 RLE symbols per block hash): the routes are ==, hash / order as equal, render identically, are valid, decompress (fresh and dirty destinations, text) to exactly the raw hash, expose its normalization; normalize_in_place gives the dual of the normalized hash; all pairs: a == b <=> raw equal <=> equal order <=> the same bytes fed to the Hasher.",
         "Trusted: refmodel::normalize, the raw hash itself as oracle.",
         "DESIGN.md §4 C07"),
 "C08": ("E-ENUM", "model_checking",
         "exhaustive enumeration of all string pairs over small alphabets up to a length bound plus structured full-length families against a textbook DP, and explicit-state search of the kernel automaton (for fixed a, all b over a small alphabet up to 64 symbols, state = the kernel's state observed through the real distances of all prefixes of a)",
         "ALL ordered pairs over alphabets of size 2 / 3 / 4 to length 11 / 8 / 5 (thorough 12 / 9 / 6) and two-run, periodic, shifted, truncated and single-edit families at length up to 64 (carry chains through bit 63), both argument orders, through the position array and the comparison-target accessors; closure: 8 (thorough 18) fixed strings a x ALL b in sigma^<=64 (65 k / 6.9 M states, every prefix of a checked on every transition).",
         "Trusted: refmodel::lcs_distance.  Unstructured long strings over large alphabets are outside the claim.",
         "DESIGN.md §4 C08"),
 "C09": ("E-ENUM", "model_checking",
         "exhaustive enumeration of all string pairs over small alphabets plus a shared window planted at every pair of offsets, against a naive scan",
         "ALL ordered pairs over alphabet 2 (|a|<=10,|b|<=12) and 3 (7/8); a 5..8-symbol window planted at every (offset in a, offset in b) for all lengths <= 64 (12.1 M cases); low-entropy all-pairs; decoy stretches before / after the real window; every short string against itself; the scoring route (score_strings_raw non-zero <=> common substring) on every normalized pair, and FuzzyHashCompareTarget / is_comparison_candidate / hash-level compare at all three size relations on a strided subset and on all short strings.",
         "Trusted: refmodel::has_common_7gram.",
         "DESIGN.md §4 C09"),
 "C10": ("E-ENUM", "model_checking",
         "bounded-exhaustive enumeration of all pairs of a normalized-hash corpus and all 31x31 size combinations for the score laws and the window pre-filter",
         "All ordered pairs: range, symmetry, 100 on itself, 0 when far, non-zero <=> equal or candidate, candidate <=> index-window sets intersect <=> reference tagged 7-gram sets intersect; every window iterator against the base-64 definition incl. effective index 31.",
         "Trusted: refmodel::numeric_window and the set intersection.",
         "DESIGN.md §4 C10"),
 "C11": ("E-STATE", "model_checking",
         "explicit-state search (stateright BFS) over a register file of real objects under ~130 safe operations, depth-bounded, plus a depth-1 sweep of the full constructor menu",
         "All operation sequences up to depth 3 (thorough 4) over parse / construct (in- and out-of-contract) / normalize / convert into previously used destinations / dual init and expand / target and position-array init / generator results; every register must be valid by the library's check and by the reference predicate in every state; out-of-contract constructor calls must panic (as documented) and never leave an invalid object.",
         "Trusted: refmodel::plain_valid.  Depth-bounded (not closed); release and debug-assertion builds.",
         "DESIGN.md §4 C11"),
 "C12": ("E-STATE", "model_checking",
         "explicit-state search (stateright BFS) over (real Generator, reference, declared size) under declare / feed / in-place zero skip / reset",
         "All histories mixing 7 declared sizes (u64 and usize forms), chunked feeding of 6 scripts (incl. 96 GiB+1 last-piece-hash and exactly-192-GiB scripts), finalizations in every state and resets (1; thorough 2) followed by any script; declared-size model and fresh-after-reset differential checked in every state.  Plus a declaration sweep: 23 612 enumerated sizes (powers of two and small odd multiples +- e, multiples of 2^38, whole GiB counts, the borders; 18 876 above the limit) x u64 / usize form x three generator states, each with its exact result, no trace of a refused call, and the repeat / mismatch / finalize behaviour of an accepted one.",
         "Trusted: refmodel::ctph, hook H1 (in-place zero skip; validated).",
         "DESIGN.md §4 C12"),
 "C13": ("E-LOCKSTEP", "model_checking",
         "bounded-exhaustive enumeration of all 31 size borders x deltas x trigger suffixes x forms x hint x fresh / reused generator from hook(N) starts",
         "Every border 192*2^n + {-2..2} reached exactly, with every trigger level k and piece counts around 32 / 64, piece-poor tails, pieces-zero gap-pieces histories, on fresh and reused generators, with and without the correct hint, and with the hint declared late (after the first group of chunks / after the last byte); exact limit accepted, above rejected; warning for every size 0..8200.",
         "Trusted: refmodel::ctph; hook H1 validated against really feeding zeros (exhaustively to 4096 / 65536, around borders to 1.5 MiB / 3 GiB, inductively to 192 GiB).",
         "DESIGN.md §4 C13"),
 "C14": ("E-CONFIG", "model_checking",
         "exhaustive configuration matrix: the same enumerated transcript in 7 feature sets x 2 debug-assertion settings, digests compared, strict-parser rule checked line by line",
         "Each of the 14 builds produces ~60 k transcript lines (generator incl. one-slice feeding and reused generators, 6 k parser texts x 6 types, conversions, scores for all 31x31 sizes, primitives), checks itself against the reference, and must be byte-identical to default/da-off except for the documented strict-parser differences; unchecked twins and easy functions are cross-checked where present.",
         "Trusted: refmodel; same compiler for all configurations; the transcript corpus is a bounded family.",
         "DESIGN.md §4 C14"),
 "C15": ("E-STATE", "model_checking",
         "explicit-state search over the conversion graph per seed hash (own BFS; stateright cross-check); closed space per seed",
         "Per seed (strided HASH corpus + narrowing-border seeds) the space (variant, object, normalizing-step-taken) closes at <= 10 states under 44 conversion edges x 3 destination dirt states, so chains of any length are covered; every state must be valid and full_eq the direct conversion; narrowing fails exactly when block hash 2 > 32 and leaves the destination untouched.",
         "Trusted: refmodel::normalize; constructors new_from_internals_near_raw as the direct conversion.",
         "DESIGN.md §4 C15"),
 "C16": ("E-ENUM", "model_checking",
         "exhaustive enumeration of all pairs and all triples of a per-type corpus against the documented order",
         "All ordered pairs (== <=> equal text, Hash stream, antisymmetry, Equal <=> ==, operators, documented order; dual rule) and all triples (transitivity) of corpora built around trailing-'A', prefix and first-difference cases for all six types; sorting two permutations.",
         "Trusted: refmodel::order (lexicographic slice comparison).",
         "DESIGN.md §4 C16"),
 "C17": ("E-STATE", "model_checking",
         "explicit-state search (stateright BFS + cross-check BFS) over the real FuzzyHashCompareTarget / position array under re-initialisation; closed space",
         "The target space closes at |H|+1 states under init_from of every corpus hash in five operand forms, so re-initialisation sequences of any length are covered; in every state the target is valid, full_eq a fresh one, equivalent to the last hash only and answers compare / candidate like the fresh one for every corpus hash; position array histories to depth 3 (4).",
         "Trusted: a fresh object as oracle; refmodel for the position-array answers.",
         "DESIGN.md §4 C17"),
 "C18": ("E-FAULT", "fault_enumeration",
         "enumeration of all reader answer scripts with <= 2 deviations (short reads, 6 error kinds) x payload sizes x read policies; real-file cases",
         "11 k executions: a failing read is returned as that I/O error and no hash; without a failure the reader must be drained to end of stream and the hash is that of the delivered bytes; declared sizes through hook H2; the error's payload must come back unchanged; procfs / directory / missing / /dev/null files and named pipes.",
         "Trusted: refmodel::ctph; hook H2 (pub forwarder).  The oracle is independent of the implementation's buffer size.",
         "DESIGN.md §4 C18"),
 "C19": ("E-STATE", "model_checking",
         "explicit-state BFS over the real RollingHash / PartialFNVHash objects (stateright + cross-check BFS); closed state spaces",
         "Every history of update calls over the alphabet, of any length, is covered because the reachable state space of the real objects closes (FNV: 64 states under all 256 bytes; rolling hash: 7*|S|^7 states over the tier's alphabet); value() is compared with the definition in every state and all six update forms must agree on every transition.",
         "Trusted: refmodel::roll / fnv32 (a few lines, bound to libfuzzy vectors by the self-test); the closure for the rolling hash is per byte alphabet (5 bytes quick, 7 thorough); the Debug rendering of the objects is complete (derive(Debug)).",
         "DESIGN.md §4 C19"),
 "C20": ("E-ENUM", "model_checking",
         "exhaustive enumeration of the complete finite argument domains against the definitions",
         "The complete domains are enumerated (all 2^32 block sizes, all 256 logs, all 31x31 pairs, all (l1,l2,d), all (n,l1,l2)), so within the property's quantifier nothing is left out.",
         "Trusted: the one-line definitions in c20.rs (3*2^n; the ssdeep score formula; 2^n*min).",
         "DESIGN.md §4 C20"),
}

NOT_YET = {}

def main():
    props = [json.loads(l) for l in open(os.path.join(VERIF, "properties.jsonl"))]
    checks = []
    na = []
    for p in props:
        pid = p["id"]
        if pid in CHECKS:
            eng, cat, tech, text, note, ref = CHECKS[pid]
            checks.append({
                "property_id": pid,
                "quick_cmd": "./check %s quick" % pid,
                "thorough_cmd": "./check %s thorough" % pid,
                "evidence_file": "/verif/evidence/%s.json" % pid,
                "replay_cmd_template": "./check --replay {path}",
                "engine": eng,
                "level_claimed": {"category": cat, "text": text, "design_ref": ref},
                "level_note": note,
                "technique": tech,
            })
        else:
            na.append({"property_id": pid,
                       "reason": NOT_YET.get(pid, "check not implemented yet in this revision of the framework (planned: see DESIGN.md §4); not claimed until its check exists")})
    man = {
        "version": 1,
        "setup_cmd": "./check --build",
        "hooks": {
            "guard": "--cfg a4lg_ffuzzy_verif",
            "enable": "RUSTFLAGS=\"--cfg a4lg_ffuzzy_verif\" (set for every build by /verif/mc/.cargo/config.toml; the checks depend on /repo/ffuzzy by path and rebuild it from the working tree)",
            "baseline_off_cmd": "cd /repo && cargo nextest run --workspace --no-fail-fast --offline --test-threads 8",
            "source_commits": ["b751100", "f812f45", "41fea3c"],
            "add_only": True,
        },
        "engines": [
            {"name": "E-STATE", "path": "mc/mc/src/explore.rs", "kind_free_text": "explicit-state search over the real objects (stateright 0.31 BFS + own layer-synchronous BFS cross-check with parent pointers; recorded paths re-executed from scratch)",
             "serves_properties": [k for k, v in CHECKS.items() if v[0] == "E-STATE"]},
            {"name": "E-ENUM", "path": "mc/mc/src/common.rs", "kind_free_text": "bounded-exhaustive enumeration of explicitly described finite case spaces, sharded over 16 threads, merged in case order",
             "serves_properties": [k for k, v in CHECKS.items() if v[0] == "E-ENUM"]},
            {"name": "E-LOCKSTEP", "path": "mc/mc/src/c01.rs", "kind_free_text": "depth-first enumeration of word sequences; real generator and declarative reference advance in lock-step and are compared after every step",
             "serves_properties": [k for k, v in CHECKS.items() if v[0] == "E-LOCKSTEP"]},
            {"name": "E-FAULT", "path": "mc/mc/src/c18.rs", "kind_free_text": "environment-answer enumeration: scripted std::io::Read, all answer vectors with <= d deviations from 'fill the buffer'",
             "serves_properties": [k for k, v in CHECKS.items() if v[0] == "E-FAULT"]},
            {"name": "E-CONFIG", "path": "c14_matrix.py", "kind_free_text": "the same enumerated transcript built and run in every feature x debug-assertion configuration; section digests compared",
             "serves_properties": [k for k, v in CHECKS.items() if v[0] == "E-CONFIG"]},
        ],
        "checks": checks,
        "not_applicable": na,
        "notes": "All checks are bounded-exhaustive enumeration or explicit-state search on the real code; no sampling or solver decides a verdict. Exit 0 = held, 1 = VIOLATION line, >=2 = machinery failure. known-findings.txt lists only `fixed:` entries (F1, F2 were repaired by fix: commits in /repo).",
    }
    json.dump(man, open(os.path.join(VERIF, "MANIFEST.json"), "w"), indent=1)
    print("MANIFEST.json: %d checks, %d not claimed" % (len(checks), len(na)))

if __name__ == "__main__":
    main()
