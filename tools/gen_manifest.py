#!/usr/bin/env python3
"""Generates /verif/MANIFEST.json from the table below (keeps it schema-valid at all times)."""
import json, os, sys

VERIF = os.path.dirname(os.path.dirname(os.path.abspath(__file__)))

# id -> (engine, category, technique, level text, level note, design ref)
CHECKS = {
 "C19": ("E-STATE", "model_checking",
         "explicit-state BFS over the real RollingHash / PartialFNVHash objects (stateright + cross-check BFS); closed state spaces",
         "Every history of update calls over the alphabet, of any length, is covered because the reachable state space of the real objects closes (FNV: 64 states under all 256 bytes; rolling hash: 7*|S|^7 states over the tier's alphabet); value() is compared with the definition in every state and all six update forms must agree on every transition.",
         "Trusted: refmodel::roll / fnv32 (a few lines, bound to libfuzzy vectors by the self-test); the closure for the rolling hash is per byte alphabet (5 bytes quick, 7 thorough); the Debug rendering of the objects is complete (derive(Debug)).",
         "DESIGN.md §4 C19"),
 "C20": ("E-ENUM", "model_checking",
         "exhaustive enumeration of the complete finite argument domains against the definitions",
         "The complete domains are enumerated (all 2^32 block sizes, all 256 logs, all 31x31 pairs, all (l1,l2,d), all (n,l1,l2)), so within the property's quantifier nothing is left out.",
         "Trusted: the one-line definitions in c20.rs (3*2^n; the ssdeep score formula; 2^n*min).",
         "DESIGN.md §4 C20"),
}

NOT_YET = {}

def main():
    props = [json.loads(l) for l in open(os.path.join(VERIF, "properties.jsonl"))]
    checks = []
    na = []
    for p in props:
        pid = p["id"]
        if pid in CHECKS:
            eng, cat, tech, text, note, ref = CHECKS[pid]
            checks.append({
                "property_id": pid,
                "quick_cmd": "./check %s quick" % pid,
                "thorough_cmd": "./check %s thorough" % pid,
                "evidence_file": "/verif/evidence/%s.json" % pid,
                "replay_cmd_template": "./check --replay {path}",
                "engine": eng,
                "level_claimed": {"category": cat, "text": text, "design_ref": ref},
                "level_note": note,
                "technique": tech,
            })
        else:
            na.append({"property_id": pid,
                       "reason": NOT_YET.get(pid, "check not implemented yet in this revision of the framework (planned: see DESIGN.md §4); not claimed until its check exists")})
    man = {
        "version": 1,
        "setup_cmd": "./check --build",
        "hooks": {
            "guard": "--cfg a4lg_ffuzzy_verif",
            "enable": "RUSTFLAGS=\"--cfg a4lg_ffuzzy_verif\" (set for every build by /verif/mc/.cargo/config.toml; the checks depend on /repo/ffuzzy by path and rebuild it from the working tree)",
            "baseline_off_cmd": "cd /repo && cargo nextest run --workspace --no-fail-fast --offline --test-threads 8",
            "source_commits": ["b751100", "f812f45", "41fea3c"],
            "add_only": True,
        },
        "engines": [
            {"name": "E-STATE", "path": "mc/mc/src/explore.rs", "kind_free_text": "explicit-state search over the real objects (stateright 0.31 BFS + own layer-synchronous BFS cross-check with parent pointers; recorded paths re-executed from scratch)",
             "serves_properties": [k for k, v in CHECKS.items() if v[0] == "E-STATE"]},
            {"name": "E-ENUM", "path": "mc/mc/src/common.rs", "kind_free_text": "bounded-exhaustive enumeration of explicitly described finite case spaces, sharded over 16 threads, merged in case order",
             "serves_properties": [k for k, v in CHECKS.items() if v[0] == "E-ENUM"]},
            {"name": "E-LOCKSTEP", "path": "mc/mc/src/c01.rs", "kind_free_text": "depth-first enumeration of word sequences; real generator and declarative reference advance in lock-step and are compared after every step",
             "serves_properties": [k for k, v in CHECKS.items() if v[0] == "E-LOCKSTEP"]},
            {"name": "E-FAULT", "path": "mc/mc/src/c18.rs", "kind_free_text": "environment-answer enumeration: scripted std::io::Read, all answer vectors with <= d deviations from 'fill the buffer'",
             "serves_properties": [k for k, v in CHECKS.items() if v[0] == "E-FAULT"]},
            {"name": "E-CONFIG", "path": "c14_matrix.py", "kind_free_text": "the same enumerated transcript built and run in every feature x debug-assertion configuration; section digests compared",
             "serves_properties": [k for k, v in CHECKS.items() if v[0] == "E-CONFIG"]},
        ],
        "checks": checks,
        "not_applicable": na,
        "notes": "All checks are bounded-exhaustive enumeration or explicit-state search on the real code; no sampling or solver decides a verdict. Exit 0 = held, 1 = VIOLATION line, >=2 = machinery failure. known-findings.txt lists only `fixed:` entries (F1, F2 were repaired by fix: commits in /repo).",
    }
    json.dump(man, open(os.path.join(VERIF, "MANIFEST.json"), "w"), indent=1)
    print("MANIFEST.json: %d checks, %d not claimed" % (len(checks), len(na)))

if __name__ == "__main__":
    main()
