#!/usr/bin/env python3
"""Run checks against every seeded change: apply patch to /repo, run ./check <ids> <tier>, revert.
usage: tools/run_seeds.py [--tier quick] [--only <seed-id-substring>] [--checks C01,C02,...|primary|all]
Writes seeded/<id>/detection.json and prints a table."""
import json, os, subprocess, sys, time, glob
V = "/verif"
args = sys.argv[1:]
tier = "quick"; only = None; checks_arg = "primary"
i = 0
while i < len(args):
    if args[i] == "--tier": tier = args[i+1]; i += 1
    elif args[i] == "--only": only = args[i+1]; i += 1
    elif args[i] == "--checks": checks_arg = args[i+1]; i += 1
    i += 1
ALL = ["C%02d" % k for k in range(1, 21)]
def sh(cmd, cwd=None):
    return subprocess.run(cmd, shell=True, cwd=cwd, stdout=subprocess.PIPE, stderr=subprocess.STDOUT, text=True)
if sh("git diff --quiet", "/repo").returncode != 0:
    print("/repo is dirty"); sys.exit(2)
rows = []
for d in sorted(glob.glob(V + "/seeded/*/")):
    sid = os.path.basename(d.rstrip("/"))
    if only and only not in sid: continue
    meta = json.load(open(d + "meta.json"))
    pid = meta["breaks_property"]
    if checks_arg == "primary": ids = [pid]
    elif checks_arg == "all": ids = ALL
    elif checks_arg == "group":
        groups = [["C01","C03","C12","C13","C14","C18","C19"], ["C04","C05","C06","C07","C11","C14","C15","C16","C20"], ["C02","C08","C09","C10","C17","C20","C11"]]
        ids = sorted({c for g in groups if pid in g for c in g} | {pid})
    else: ids = checks_arg.split(",")
    r = sh("git apply " + d + "patch.diff", "/repo")
    if r.returncode != 0:
        print(sid, "PATCH DOES NOT APPLY", r.stdout); continue
    res = {}
    try:
        for cid in ids:
            t = time.time()
            r = sh("./check %s %s" % (cid, tier), V)
            viol = [l for l in r.stdout.splitlines() if l.startswith("VIOLATION")]
            first = ""
            lines = r.stdout.splitlines()
            for k, l in enumerate(lines):
                if l.startswith("VIOLATION") and k > 0:
                    first = lines[k-1].strip()[:300]; break
            res[cid] = {"exit": r.returncode, "violation_lines": len(viol), "first": first, "wall_s": round(time.time() - t, 1)}
    finally:
        sh("git checkout -- .", "/repo")
        sh("rm -rf " + V + "/replays")
    det_path = d + "detection.json"
    old = json.load(open(det_path)) if os.path.exists(det_path) else {}
    old.setdefault(tier, {}).update(res)
    json.dump(old, open(det_path, "w"), indent=1)
    caught = [c for c, v in res.items() if v["exit"] == 1]
    rows.append((sid, pid, caught, res))
    print("%-45s primary=%s caught_by=%s  %s" % (sid, pid, ",".join(caught) or "NONE", {c: v["exit"] for c, v in res.items()}), flush=True)
