#!/bin/bash
# usage: tools/try_mutant.sh <patch-file|sed-expr-file> <tier> <ID>...   (applies to /repo, runs checks, reverts)
# A patch is applied with `git apply`; the tree is restored with `git checkout -- .` afterwards.
set -u
PATCH=$(realpath "$1"); TIER=$2; shift 2
cd /repo || exit 2
if ! git diff --quiet; then echo "/repo is dirty"; exit 2; fi
git apply "$PATCH" || { echo "patch does not apply"; exit 2; }
cd /verif
for id in "$@"; do
  out=$(./check $id $TIER 2>/dev/null); rc=$?
  nv=$(echo "$out" | grep -c '^VIOLATION')
  echo "== $id exit=$rc violations_reported=$nv :: $(echo "$out" | grep -m1 -B1 '^VIOLATION' | head -1 | cut -c1-220)"
done
cd /repo && git checkout -- . && git status --short
rm -rf /verif/replays
