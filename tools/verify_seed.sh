#!/bin/bash
# usage: tools/verify_seed.sh <worktree> <seed-name>
# Confirms, in the scratch worktree (never /repo): patch applies; pinned suite passes with the patch;
# demo fails with the patch; demo passes without it.  Prints one RESULT line.
WT=$1; NAME=$2; SD=$WT/_seed/$NAME
cd $WT || exit 2
git checkout -q -- . ; rm -rf ffuzzy/tests
git apply --check $SD/patch.diff || { echo "RESULT $NAME patch-does-not-apply"; exit 1; }
mkdir -p ffuzzy/tests; T=$(echo $NAME | tr '-' '_'); cp $SD/demo.rs ffuzzy/tests/$T.rs
# demo without patch
(cd ffuzzy && cargo test --offline --release $FEATURES --test $T >/tmp/vs-$NAME-clean.log 2>&1); CLEAN=$?
git apply $SD/patch.diff
(cd ffuzzy && cargo test --offline --release $FEATURES --test $T >/tmp/vs-$NAME-patched.log 2>&1); PATCHED=$?
rm -rf ffuzzy/tests
SUITE=$(cargo nextest run --workspace --no-fail-fast --offline --test-threads 6 2>&1 | grep -E "tests run:" | tail -1)
git checkout -q -- .
echo "RESULT $NAME demo_clean_exit=$CLEAN demo_patched_exit=$PATCHED suite_with_patch: $SUITE"
