#!/usr/bin/env python3
"""Regenerates the seeded-change table in DESIGN.md (between the SEEDS markers) from seeded/*/detection.json."""
import json, glob, os, re
V = "/verif"
DESC = {
 "C01-dirty_guess_noclamp": ("final block-size guess no longer clamped to the active contexts (stale context after reset)", "missed at first: C01 had no reused generators; S1 and S3b now also start from a reused generator"),
 "C01-eager_elim_31": ("block hash eliminated when the next level has 31 (not 32) pieces", ""),
 "C02-bm-skip-border": ("common-substring scan stops one window early (`l <= 7`)", ""),
 "C02-stale-bh1-on-reinit": ("`init_from` clears block hash 2 twice, never block hash 1", ""),
 "C03-elim-half-minus-one": ("early elimination makes slice and byte feeding disagree", ""),
 "C03-short-read-eof": ("reader loop treats a short read as end of stream", ""),
 "C04-dual-bh1-raw-tail": ("dual parser's raw-length check reads the wrong length field", ""),
 "C04-full-buffer-run-tail": ("overflow check moved before run collapsing (rejects texts that fit exactly)", ""),
 "C05-parse-long-run-counter-wrap": ("parser run counter narrowed to u8 (runs of >= 259 characters)", "missed at first: the text corpus stopped at runs of 200; runs of 255..261, 300, 511..515, 65535..65539 added to C04/C05"),
 "C05-store-tiny-buffer-underflow": ("unsigned underflow in the caller-buffer size check for tiny buffers", ""),
 "C06-dual-reinit-empty-blockhash": ("dual compression returns early for an empty block hash (previous content survives)", "missed at first: C06 only built fresh duals; a re-initialised dirty dual is now a normalization route"),
 "C06-dual-reinit-stale-tail": ("dual compression clears a too short tail (stale characters behind the block hash)", "missed at first (same strengthening)"),
 "C07-expand-fastpath-tail": ("dual expansion fast path does not zero the destination tail", ""),
 "C07-rle-skip-clear-when-empty": ("RLE terminator fill skipped when no RLE symbol was emitted", ""),
 "C08-affix-trim-overlap": ("edit distance gains a prefix / suffix trim whose counts overlap", ""),
 "C08-suffix-trim-index-reuse": ("edit distance gains a suffix trim that tests the wrong bit", ""),
 "C09-near-miss-overskip": ("after a 6-symbol near miss the scan skips 8 instead of 7", ""),
 "C09-suffix-already-matched": ("'suffix already matched' shortcut reports a window that is not there", ""),
 "C10-bh2-index-clamp": ("block hash 2 index windows clamped to effective size 30 at the largest block size", ""),
 "C10-substring-skip-border": ("common-substring scan stops one window early", ""),
 "C11-dual-parse-raw-len": ("dual parser drops the final raw-length check (ordinary characters after a run)", "missed at first: C11's text menu only had single over-long runs; two texts of that shape added"),
 "C11-long-form-stale-tail": ("`into_mut_long_form` clears the tail depending on an already overwritten length", ""),
 "C12-rejected-hint-moves-fork-limit": ("a refused second declaration still lowers the fork limit", ""),
 "C12-reset-keeps-hinted-fork-limit": ("`reset()` keeps the fork limit of an earlier declaration", ""),
 "C13-eager-elim-31": ("elimination one piece too early changes the block size choice", ""),
 "C13-stale-ctx-clamp": ("block-size guess clamped with the fork limit instead of the active range (stale context after reset)", "missed at first: C13 had no reused generators and no piece-poor inputs; both added (also a piece-poor script in C12)"),
 "C14-strict-norm-capacity": ("strict parser counts stored instead of read characters (normalizing types accept more than raw / dual)", "first reported as exit 2: the vacuity guard ('strict transcript identical to default') fired before the violations were printed; guard now only applies when nothing was found"),
 "C14-unsafe-stale-context": ("`unsafe` engine loop activates the next context without `reset()` (reused generator)", ""),
 "C15-dual-stale-rle": ("RLE terminator fill skipped (re-used dual keeps old runs)", ""),
 "C15-narrow-partial-write": ("`try_into_mut_short` copies block hash 1 before the overflow check", ""),
 "C16-dual-reinit-stale-rle": ("single RLE terminator instead of a filled tail (re-used dual != fresh dual)", "missed at first: C16 only compared freshly built objects; a third of the corpus is now built through re-use routes"),
 "C16-long-form-stale-tail": ("`into_mut_long_form` leaves a stale tail (`==` but `cmp != Equal`)", "missed at first (same strengthening; replay cases now carry the construction route)"),
 "C17-clear-guard-after-len": ("clear guard reads the already overwritten length (stale masks with length 0)", ""),
 "C17-skipclear-wrong-len": ("skip-clear optimisation tests the other block hash's length", ""),
 "C18-empty-file-shortcut": ("`hash_file` finalizes at once when the metadata size is 0 (procfs, directories)", ""),
 "C18-interrupted-retry": ("reader loop retries `ErrorKind::Interrupted` instead of returning it", ""),
 "C19-rolling-bulk-stale-index": ("`RollingHash::update` bulk fast path does not reset the ring index", ""),
 "C19-rolling-iter-sizehint-upper": ("`update_by_iter` skips ahead by the size hint's upper bound", "missed at first: only exact-size iterators were fed; filter-style iterators with inexact hints added (C19, C03)"),
 "C20-cap-min-lhs": ("score cap uses the left length twice", ""),
 "C20-is-valid-modinv": ("`is_valid` via the modular inverse of 3 (accepts 2^31)", ""),
 # ---- round 2 (authors were told which ideas already existed and asked for different ones)
 "C01-reset_keeps_size_limit": ("`reset()` keeps the fork limit of an earlier declared size", "missed at first: C01's reused generators had no declared size; a second kind of reused generator (earlier input digested under a small declared size) added to C01 and C13"),
 "C01-half_char_wrong_level": ("truncated block hash 2 takes its last character from the wrong level when the rolling hash is 0", ""),
 "C02-cap-fastpath-self-len": ("score cap skipped when the left block hash alone is long enough", ""),
 "C02-neareq-nocap-border": ("no-cap shortcut off by one at block size 24", ""),
 "C03-iter-size-hint-upper": ("`update_by_iter` adds the size hint's upper bound to the input size", ""),
 "C03-sparse-clone-roll-mask": ("hand-written `Clone` omits `roll_mask`", "first reported as exit 4 (violation did not replay): the replay did not clone after every call as the explored model does, and a Debug-equality assertion on zero-length calls demanded more than the property; replay now clones at every step and the assertion was removed"),
 "C04-bs-wrap-check": ("block size accumulator wraps (7516192768 parses as 3221225472)", "spellings 'valid size + k*2^32 / + 2^64' were added to the corpus after reading the author's report and before the first run"),
 "C04-dual-raw-extra-last-run": ("dual parser counts only the last long run's removed characters", ""),
 "C05-fromstr-strips-eol": ("`FromStr` strips trailing CR / LF", "missed at first: no line terminators among tails / edit bytes, and accepted texts were only re-parsed through from_bytes; LF, CRLF, blank, tab tails, LF / CR / blank / '=' edit bytes and the str::parse route added"),
 "C06-lookbehind-index-slip": ("in-place normalizer's look-behind skips one position (`c?cc` loses a character)", ""),
 "C06-parser-sentinel-collision": ("parser's 'no previous character' marker collides with symbol 61 (leading `999`)", "missed at first: runs only used symbols 0, 63, 27; runs of every one of the 64 symbols added to the text corpus and the block-hash families"),
 "C07-compress-tail-clear-by-input-len": ("dual compression clears the tail only up to the input length", ""),
 "C08-init-from-empty-stale": ("position array `init_from(&[])` keeps the old bits (two cooperating sites)", "missed at first: C08 built a fresh position array per string; it now re-uses one (emptied every third time) and compares a fifth with fresh ones"),
 "C08-rowmask-wrapping-shl": ("row mask built with `wrapping_shl(len)` (wrong for 64-symbol strings)", ""),
 "C09-head-window-dropped": ("scan never examines the first window of the other string", ""),
 "C09-stale-right-border": ("right border of the scan window kept across skips (false positives)", ""),
 "C10-cap_self_len": ("score cap computed from the left length only (asymmetric scores)", ""),
 "C10-target_reinit_bh1": ("`init_from` clears block hash 2 twice (re-used target invents matches)", "missed at first: C10 compared through fresh targets only; the pair laws now use re-used targets"),
 "C11-dual-rle-terminator": ("single RLE terminator instead of a filled tail", ""),
 "C11-target-init-skip-clear": ("target `init_from` skips the clear depending on an already overwritten length", ""),
 "C12-hint-limit-unclamped": ("fork limit not clamped for declared sizes above 96 GiB (index out of bounds)", ""),
 "C12-reset-early-out": ("`reset()` returns early when no byte was fed (declaration survives)", ""),
 "C13-fixed-limit-before-check": ("fork limit assigned before the mismatch check of a second declaration", "missed at first: C13 never attempted a second declaration; after an accepted hint a much smaller one is now attempted and must be refused without effect"),
 "C13-fixed-limit-unclamped": ("fork limit not clamped (panic above 96 GiB)", ""),
 "C14-raw-init-tail-release": ("`init_from_internals_raw` no longer asserts a clean tail (debug builds still panic)", "missed at first: the transcript had no out-of-contract constructor calls; a `constructors` section (panic or object, per configuration) added"),
 "C14-unchecked-near-eq": ("`compare_near_eq_unchecked` forwards to the unequal variant", ""),
 "C15-dual-expand-fastpath-tail": ("dual expansion fast path skips the zero fill", ""),
 "C15-widen-stale-upper-half": ("`into_mut_long_form` clears depending on an overwritten length", ""),
 "C16-dual-expand-fast-path": ("dual expansion into a dirty raw object leaves a stale tail (`==` but `cmp != Equal`)", "missed at first: no object of the corpus came out of a dual expansion into a dirty destination; added as a construction route"),
 "C16-short-conv-partial-write": ("failed narrowing writes block hash 1 into the destination (`==` but `cmp != Equal`)", "missed at first: added 'a failed narrowing was attempted into the object' as a construction route"),
 "C17-bh2-clear-wrong-axis": ("clear bounded by the position count instead of the alphabet size", ""),
 "C17-stale-len-empty": ("empty block hash leaves the previous length (two cooperating sites)", ""),
 "C18-fill-buffer-deferred-error": ("buffer-filling helper drops an error that arrives after some bytes", ""),
 "C18-hash-file-bounded-read": ("`hash_file` reads through `take(metadata size)`", ""),
 "C19-rh-array-h3-width": ("`+= &[u8; N]` specialisation rebuilds h3 from 6 instead of 7 bytes", "`+= &[u8; N]` for N = 2..16 was added after reading the author's report and before the first run (only N = 1 was fed before)"),
 "C19-rh-iter-window-copy": ("`update_by_iter` works on a copy of the window and does not store it back", ""),
 "C20-rawscore-reciprocal": ("raw score through a 16-bit reciprocal table (off by 1-2 for 0.8 % of the domain)", ""),
 "C20-valid-lowest-bit-pair": ("`is_valid` through lowest-bit isolation (accepts 2^31)", ""),
}
rows = []
for d in sorted(glob.glob(V + "/seeded/*/")):
    sid = os.path.basename(d.rstrip("/"))
    meta = json.load(open(d + "meta.json"))
    det = json.load(open(d + "detection.json")) if os.path.exists(d + "detection.json") else {}
    q = det.get("quick", {})
    caught = sorted(c for c, v in q.items() if v["exit"] == 1)
    ran = sorted(q.keys())
    desc, note = DESC.get(sid, (meta.get("summary", ""), meta.get("strengthening", "")))
    rows.append("| `%s` | %s | %s | %s | %s |" % (sid, desc, ", ".join(caught) or "—", ", ".join(c for c in ran if c not in caught) or "—", note or ""))
table = "| Seed | Change | Reported by (quick) | Also run, silent | Note |\n| --- | --- | --- | --- | --- |\n" + "\n".join(rows)
p = V + "/DESIGN.md"
s = open(p).read()
if "SEED_TABLE_PLACEHOLDER" in s:
    s = s.replace("SEED_TABLE_PLACEHOLDER", "<!-- SEEDS-BEGIN -->\n" + table + "\n<!-- SEEDS-END -->")
else:
    s = re.sub(r"<!-- SEEDS-BEGIN -->.*?<!-- SEEDS-END -->", lambda m: "<!-- SEEDS-BEGIN -->\n" + table + "\n<!-- SEEDS-END -->", s, flags=re.S)
open(p, "w").write(s)
print("table with %d rows written" % len(rows))
