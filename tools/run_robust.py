#!/usr/bin/env python3
"""Robustness audit: each patch in robust/ injects a panic at a rare condition inside the library.  A check may exit 0
(the condition is not reached by that check) or 1 (the panic is caught and reported as a violation), but it must never
crash or exit with a machinery code: a panic inside the library is a verdict, not a crash of the explorer.
usage: tools/run_robust.py [--only substr] [--checks C01,C02]"""
import json, os, subprocess, sys, time, glob
V = "/verif"
args = sys.argv[1:]; only = None; checks = None
i = 0
while i < len(args):
    if args[i] == "--only": only = args[i+1]; i += 1
    elif args[i] == "--checks": checks = args[i+1].split(","); i += 1
    i += 1
ALL = checks or ["C%02d" % k for k in range(1, 21)]
def sh(cmd, cwd=None, env=None):
    return subprocess.run(cmd, shell=True, cwd=cwd, env=env, stdout=subprocess.PIPE, stderr=subprocess.STDOUT, text=True)
if sh("git diff --quiet", "/repo").returncode != 0:
    print("/repo is dirty"); sys.exit(2)
path = V + "/robust/results.json"
results = json.load(open(path)) if os.path.exists(path) else {}
bad = 0
env = dict(os.environ, CHECK_PRIMARY_PROFILE_ONLY="1")
for f in sorted(glob.glob(V + "/robust/*.diff")):
    name = os.path.basename(f)[:-5]
    if only and only not in name: continue
    if sh("git apply " + f, "/repo").returncode != 0:
        print(name, "PATCH DOES NOT APPLY"); bad += 1; continue
    res = {}
    try:
        for cid in ALL:
            r = sh("./check %s quick" % cid, V, env)
            res[cid] = r.returncode
            if r.returncode not in (0, 1):
                bad += 1
                open("/tmp/robust_%s_%s.log" % (name, cid), "w").write(r.stdout)
    finally:
        sh("git checkout -- .", "/repo"); sh("rm -rf " + V + "/replays")
    results[name] = res
    json.dump(results, open(path, "w"), indent=1, sort_keys=True)
    print("%-28s reported by: %-40s machinery exits: %s" % (name, ",".join(c for c, v in res.items() if v == 1) or "-", ",".join("%s=%d" % (c, v) for c, v in res.items() if v not in (0, 1)) or "none"), flush=True)
sh("./check --build", V)
sys.exit(1 if bad else 0)
