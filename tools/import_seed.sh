#!/bin/bash
# usage: tools/import_seed.sh <worktree> <seed-name> <PROPERTY-ID> "<verification RESULT line>"
WT=$1; NAME=$2; PID=$3; RES=$4
D=/verif/seeded/$PID-$NAME
mkdir -p $D
cp $WT/_seed/$NAME/patch.diff $D/patch.diff
cp $WT/_seed/$NAME/demo.rs $D/demo.rs
cp $WT/_seed/$NAME/notes.md $D/notes.md 2>/dev/null
python3 - "$D" "$PID" "$NAME" "$RES" <<'PY'
import json,sys,re
d,pid,name,res=sys.argv[1:5]
notes=open(d+'/notes.md').read() if __import__('os').path.exists(d+'/notes.md') else ''
meta={"id":f"{pid}-{name}","breaks_property":pid,"author":"independent sub-agent given only the property text and a scratch worktree",
 "needs_to_manifest":"see notes.md (written by the author)",
 "confirmed_by_me":{"how":"tools/verify_seed.sh in the scratch worktree: demo on clean tree, demo with patch, pinned suite (cargo nextest, 198 tests) with patch","result":res},
 "files":["patch.diff","demo.rs","notes.md"]}
json.dump(meta,open(d+'/meta.json','w'),indent=1)
PY
echo imported $D
