#!/usr/bin/env python3
"""Writes the prompt files for a round of seed authors (sub-agents) to /tmp/agent<R>_prompt_<ID>.txt.
Each prompt contains ONLY the text of one property (from properties.jsonl), the worktree path, the rules, and a
one-line-each list of the ideas earlier authors already produced for that property (from tools/seed_table.py) --
nothing about /verif's checks.   usage: tools/make_prompts.py <round> <directions-file> [IDs...]"""
import json, re, sys, os
V = "/verif"
rnd = sys.argv[1]; directions = open(sys.argv[2]).read().strip(); ids = sys.argv[3:] or ["C%02d" % k for k in range(1, 21)]
src = open(V + "/tools/seed_table.py").read()
ns = {}
exec(src[src.index("DESC = {"):src.index("rows = []")], ns)
DESC = ns["DESC"]
props = {}
for l in open(V + "/properties.jsonl"):
    j = json.loads(l); props[j["id"]] = j
def g(j, *names):
    for n in names:
        if n in j: return j[n]
    return ""
for pid in ids:
    j = props[pid]
    wt = "/tmp/wt%s-%s" % (rnd, pid)
    used = "; ".join(d[0] for k, d in sorted(DESC.items()) if k.startswith(pid + "-"))
    anchors = j.get("anchors") or j.get("anchored_in") or {}
    text = []
    text.append("%s — %s\n" % (pid, j["title"]))
    text.append("Statement: %s\n" % j["statement"])
    text.append("Quantified over: %s\n" % j["quantifier"]["text"])
    text.append("Why the existing tests cannot settle it: %s\n" % j["why_tests_cant"])
    a = j["anchors"]
    text.append("Anchored in files: %s" % ", ".join(a.get("files", [])))
    text.append("Mechanisms: %s" % "; ".join("%s @ %s" % (m["name"], m["where"]) for m in a.get("mechanism", [])))
    if a.get("state"):
        text.append("State: %s" % "; ".join("%s (%s) @ %s" % (m["name"], m.get("meaning", ""), m["where"]) for m in a["state"]))
    body = "\n".join(text)
    feat = "unless the property itself is about feature sets" 
    dirs = directions
    if "{UNTOUCHED}" in dirs:
        up = "/tmp/untouched_%s.txt" % pid
        dirs = dirs.replace("{UNTOUCHED}", open(up).read() if os.path.exists(up) else "(none)")
    prompt = f"""You are working in your own scratch git worktree of the a4lg/ffuzzy repository: {wt}  (a pure-Rust ssdeep-compatible fuzzy hashing library; crate in {wt}/ffuzzy, lib name `ssdeep`). Work ONLY inside {wt}. Never read or touch /repo or /verif. There is no network; use `--offline` with cargo.

Your job: act as a mutation author. Produce realistic changes to the library's NON-test source code (under ffuzzy/src, not the `tests.rs` / `tests/` files, not `#[cfg(test)]` code) that BREAK the property below, while the crate still compiles and the repository's existing test suite still passes completely (198 tests):

    cd {wt} && cargo nextest run --workspace --no-fail-fast --offline --test-threads 4

The property:
-----
{body}
-----

Requirements for each change:
* It must be the kind of defect a maintainer could plausibly introduce while refactoring or optimising (off-by-one in a border, dropped re-initialisation, wrong field copied, cached value not refreshed, check moved after the write it guards, two cooperating sites that each look fine alone, ...). Not a blatant sabotage, not `if input == magic`.
* It must need something SPECIFIC to manifest: a particular interleaving of API calls, a multi-step sequence of operations, an unusual input shape or size, a previously used ("dirty") destination object, a rare internal state — not something that ordinary use or the first obvious call would expose at once. (That is why the existing suite still passes.)
* It must really violate the property as stated (observable through the public API in a normal default-feature build, {feat}), not merely change internals.
* Prefer changes in default-feature code so the existing suite compiles them; changes in feature-gated code are acceptable only if the property is about build features.

IMPORTANT - all of the following ideas have ALREADY been produced by other authors for this property; do NOT repeat them or close variants: {used}.
{dirs}

Produce up to 2 different changes (different code sites / mechanisms); one good one is better than two weak ones. For each, create a directory {wt}/_seed/<short-name>/ containing:
  - patch.diff : `git diff` of the source change only (must apply with `git apply patch.diff` at the worktree root on a clean checkout of HEAD)
  - demo.rs    : a self-contained Rust integration test (to be dropped in as {wt}/ffuzzy/tests/<short-name>.rs and run with `cargo test --offline --release --test <short-name>` from {wt}/ffuzzy; also try without --release) using only the crate's public API, that FAILS with the patch applied and PASSES on the unpatched tree. Put a comment at the top explaining the failing scenario.
  - notes.md   : which property it breaks and how, what it needs in order to manifest, exactly what you ran and the results (suite with patch: N passed; demo with patch: fails; demo without patch: passes).

You must actually verify all three facts yourself (suite passes with the patch; demo fails with the patch; demo passes without). If a candidate change is caught by the existing suite, discard it and try another. When finished, leave the worktree source UNPATCHED (git checkout -- ffuzzy/src; remove your demo from ffuzzy/tests), keep only the untracked _seed/ directory, and delete {wt}/target to free disk space (rm -rf {wt}/target). Report briefly: the names of the seeds you produced and one line each on what they do.
"""
    open("/tmp/agent%s_prompt_%s.txt" % (rnd, pid), "w").write(prompt)
    print("wrote /tmp/agent%s_prompt_%s.txt (%d chars)" % (rnd, pid, len(prompt)))
