#!/usr/bin/env python3
"""No-false-alarm experiment: apply each behaviour-preserving patch in benign/ to /repo, run EVERY check at the
given tier, revert.  Every run must exit 0 without a VIOLATION line.  Writes benign/results.json.
usage: tools/run_benign.py [--tier quick] [--only <substring>]"""
import json, os, subprocess, sys, time, glob
V = "/verif"
args = sys.argv[1:]
tier = "quick"; only = None
i = 0
while i < len(args):
    if args[i] == "--tier": tier = args[i+1]; i += 1
    elif args[i] == "--only": only = args[i+1]; i += 1
    i += 1
ALL = ["C%02d" % k for k in range(1, 21)]
def sh(cmd, cwd=None):
    return subprocess.run(cmd, shell=True, cwd=cwd, stdout=subprocess.PIPE, stderr=subprocess.STDOUT, text=True)
if sh("git diff --quiet", "/repo").returncode != 0:
    print("/repo is dirty"); sys.exit(2)
path = V + "/benign/results.json"
results = json.load(open(path)) if os.path.exists(path) else {}
bad = 0
for f in sorted(glob.glob(V + "/benign/*.diff")):
    name = os.path.basename(f)[:-5]
    if only and only not in name: continue
    r = sh("git apply " + f, "/repo")
    if r.returncode != 0:
        print(name, "PATCH DOES NOT APPLY", r.stdout); bad += 1; continue
    res = {}
    try:
        for cid in ALL:
            t = time.time()
            r = sh("./check %s %s" % (cid, tier), V)
            viol = [l for l in r.stdout.splitlines() if l.startswith("VIOLATION")]
            res[cid] = {"exit": r.returncode, "violation_lines": len(viol), "wall_s": round(time.time() - t, 1)}
            if r.returncode != 0 or viol:
                bad += 1
                open("/tmp/benign_%s_%s.log" % (name, cid), "w").write(r.stdout)
    finally:
        sh("git checkout -- .", "/repo")
        sh("rm -rf " + V + "/replays")
    results.setdefault(name, {})[tier] = res
    json.dump(results, open(path, "w"), indent=1, sort_keys=True)
    noisy = [c for c, v in res.items() if v["exit"] != 0 or v["violation_lines"]]
    print("%-40s %s" % (name, "ALL SILENT" if not noisy else "ALARMS: " + ",".join(noisy)), flush=True)
sh("./check --build", V)
sys.exit(1 if bad else 0)
