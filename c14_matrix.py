"""C14 — optional build features do not change results (engine E-CONFIG).

The `transcript` binary (mc/transcript) is built for every feature set x debug-assertion
setting and run on the shared corpus; section digests are compared with the default /
debug-assertions-off build; on a difference the section is dumped in both configurations
and the first differing line is extracted.  For the strict parser the documented rule is
applied line by line."""
import json, os, subprocess, sys, time
from concurrent.futures import ThreadPoolExecutor

BASE = ["std", "easy-functions"]
CONFIGS = [
    ("default", BASE),
    ("unsafe", BASE + ["unsafe"]),
    ("unchecked", BASE + ["unchecked"]),
    ("opt-reduce-fnv-table", BASE + ["opt-reduce-fnv-table"]),
    ("unsafe+opt-reduce-fnv-table", BASE + ["unsafe", "opt-reduce-fnv-table"]),
    ("strict-parser", BASE + ["strict-parser"]),
    ("no-default-features", []),
]
PROFILES = [("da-off", "release"), ("da-on", "relda")]


def log(m):
    print("[c14] " + m, file=sys.stderr, flush=True)


def tdir(verif, name, prof):
    return os.path.join(verif, ".build", "c14", "%s.%s" % (name.replace("+", "_"), prof))


def build_one(verif, env, name, feats, prof):
    cmd = ["cargo", "build", "--offline", "-q", "-p", "transcript", "--profile", prof, "--target-dir", tdir(verif, name, prof)]
    if feats:
        cmd += ["--features", ",".join(feats)]
    r = subprocess.run(cmd, cwd=os.path.join(verif, "mc"), env=env, stdout=subprocess.PIPE, stderr=subprocess.STDOUT, text=True)
    return (name, prof, r.returncode, r.stdout[-3000:])


def build_all(verif, env, tier="quick"):
    jobs = [(n, f, p) for (n, f) in CONFIGS for (_, p) in PROFILES]
    t = time.time()
    with ThreadPoolExecutor(max_workers=8) as ex:
        res = list(ex.map(lambda j: build_one(verif, env, j[0], j[1], j[2]), jobs))
        mres = list(ex.map(lambda f: build_mc_feature(verif, env, f[0]), MC_FEATURE_RUNS[tier]))
    for (feats, rc, out) in mres:
        if rc != 0:
            sys.stderr.write(out)
            log("BUILD FAILED for mc with features %s (machinery error unless the tree does not compile in that configuration)" % feats)
            return False
    bad = [r for r in res if r[2] != 0]
    if bad:
        for b in bad:
            sys.stderr.write(b[3])
            log("BUILD FAILED for configuration %s / %s (machinery error unless the tree does not compile in that configuration)" % (b[0], b[1]))
        return False
    dt = time.time() - t
    if dt > 3:
        log("built %d configurations in %.1fs" % (len(jobs), dt))
    return True


# Generator-side explorations repeated on `mc` built with the feature sets that change generator code
MC_FEATURE_RUNS = {
    "quick": [("unsafe", ["C01", "C13", "C12", "C05", "C07"]), ("opt-reduce-fnv-table", ["C19", "C01"]), ("unsafe,opt-reduce-fnv-table", ["C13", "C12"])],
    "thorough": [("unsafe", ["C01", "C03", "C12", "C13", "C02", "C04", "C05", "C06", "C07", "C08", "C09", "C10", "C11", "C15", "C16", "C17", "C19", "C20"]),
                 ("opt-reduce-fnv-table", ["C01", "C03", "C13", "C19"]),
                 ("unsafe,opt-reduce-fnv-table", ["C01", "C03", "C12", "C13", "C19"])],
}


def mc_dir(verif, feats):
    return os.path.join(verif, ".build", "c14", "mc." + feats.replace(",", "_"))


def build_mc_feature(verif, env, feats):
    cmd = ["cargo", "build", "--offline", "-q", "-p", "mc", "--profile", "release", "--features", feats, "--target-dir", mc_dir(verif, feats)]
    r = subprocess.run(cmd, cwd=os.path.join(verif, "mc"), env=env, stdout=subprocess.PIPE, stderr=subprocess.STDOUT, text=True)
    return (feats, r.returncode, r.stdout[-3000:])


def run_mc_feature(verif, env, feats, pid, tier_for_mc="quick"):
    evp = os.path.join(verif, ".build", "evidence-secondary", "C14.%s.%s.json" % (pid, feats.replace(",", "_")))
    os.makedirs(os.path.dirname(evp), exist_ok=True)
    e = dict(env, MC_LABEL="features_" + feats.replace(",", "_"))
    r = subprocess.run([os.path.join(mc_dir(verif, feats), "release", "mc"), pid, "--tier", tier_for_mc, "--verif-dir", verif, "--evidence", evp],
                       cwd=verif, env=e, stdout=subprocess.PIPE, stderr=subprocess.PIPE, text=True)
    cov = {}
    try:
        cov = json.load(open(evp))
    except Exception:
        pass
    return r.returncode, r.stdout, r.stderr, cov


def binary(verif, name, prof):
    return os.path.join(tdir(verif, name, prof), prof, "transcript")


def run_cfg(verif, env, name, prof, args=()):
    r = subprocess.run([binary(verif, name, prof)] + list(args), env=env, stdout=subprocess.PIPE, stderr=subprocess.PIPE, text=True)
    return r.returncode, r.stdout, r.stderr


def parse_summary(out):
    secs, selfn, mism = {}, None, []
    for l in out.splitlines():
        if l.startswith("SECTION "):
            _, n, cnt, dig = l.split()
            secs[n] = (int(cnt), dig)
        elif l.startswith("SELF "):
            selfn = int(l.split()[1])
        elif l.startswith("SELFMISMATCH "):
            mism.append(l[len("SELFMISMATCH "):])
    return secs, selfn, mism


def parse_pline(l):
    # P <tag> <type> <text> Ok|Err ...
    p = l.split(" ", 5)
    return {"tag": p[1], "type": p[2], "text": p[3], "ok": p[4] == "Ok", "rest": p[5] if len(p) > 5 else ""}


def raw_over(tag, typ):
    short = typ in ("Raw", "Norm", "Dual")
    return tag[3] == "1" or (tag[4] == "s" if short else tag[5] == "l")


def strict_rule(default_lines, strict_lines):
    """strict differs from default only by rejecting texts whose raw block hash exceeds the capacity;
    under it the raw, normalizing and dual types of one capacity accept exactly the same texts."""
    problems = []
    if len(default_lines) != len(strict_lines):
        return ["parser section has %d lines in default and %d in strict" % (len(default_lines), len(strict_lines))], 0
    by_text = {}
    checked = 0
    for d, s in zip(default_lines, strict_lines):
        a, b = parse_pline(d), parse_pline(s)
        checked += 1
        if (a["type"], a["text"]) != (b["type"], b["text"]):
            problems.append("line order differs: %s / %s" % (d[:120], s[:120]))
            break
        over = raw_over(a["tag"], a["type"])
        exp_ok = a["ok"] and not over
        if b["ok"] != exp_ok:
            problems.append("strict %s %s: accepted=%s, default accepted=%s, raw block hash over capacity=%s" % (a["type"], a["text"][:100], b["ok"], a["ok"], over))
        elif b["ok"] and a["rest"] != b["rest"]:
            problems.append("strict %s %s: accepted with a different result: %s vs %s" % (a["type"], a["text"][:100], b["rest"][:80], a["rest"][:80]))
        by_text.setdefault(a["text"], {})[a["type"]] = b["ok"]
    for text, st in by_text.items():
        for group in (("Raw", "Norm", "Dual"), ("LongRaw", "LongNorm", "LongDual")):
            vals = {st.get(t) for t in group}
            if len(vals) > 1:
                problems.append("under strict-parser the types %s disagree on %s: %s" % ("/".join(group), text[:100], {t: st.get(t) for t in group}))
    return problems, checked


def first_diff(a_lines, b_lines):
    for i, (x, y) in enumerate(zip(a_lines, b_lines)):
        if x != y:
            return i, x, y
    if len(a_lines) != len(b_lines):
        i = min(len(a_lines), len(b_lines))
        return i, (a_lines[i] if i < len(a_lines) else "<missing>"), (b_lines[i] if i < len(b_lines) else "<missing>")
    return None


def run(tier, verif, env):
    t0 = time.time()
    env = dict(env, MC_TIER=tier)
    ev_path = os.path.join(verif, "evidence", "C14.json")
    os.makedirs(os.path.dirname(ev_path), exist_ok=True)
    if os.path.exists(ev_path):
        os.remove(ev_path)
    if not build_all(verif, env, tier):
        return 2
    results = {}
    jobs = [(n, p, pn) for (n, _) in CONFIGS for (pn, p) in PROFILES]
    with ThreadPoolExecutor(max_workers=14) as ex:
        outs = list(ex.map(lambda j: (j, run_cfg(verif, env, j[0], j[1])), jobs))
    for (n, p, pn), (rc, out, err) in outs:
        if rc != 0:
            sys.stderr.write(err[-2000:])
            log("transcript crashed in configuration %s/%s (exit %d)" % (n, pn, rc))
            # a crash of the library under some configuration IS a result difference; report it as such
            results[(n, pn)] = ({}, None, ["transcript process died with exit %d: %s" % (rc, err.strip().splitlines()[-1] if err.strip() else "")])
        else:
            results[(n, pn)] = parse_summary(out)
    ref = results[("default", "da-off")]
    violations = []  # (signature, what, replay-doc)
    lines_total = 0
    strict_checked = 0
    matrix = {}
    dumps = {}

    def dump(n, pn, sec):
        key = (n, pn, sec)
        if key not in dumps:
            p = dict(PROFILES)[pn]
            rc, out, _ = run_cfg(verif, env, n, p, ["--dump", sec])
            dumps[key] = out.splitlines()
        return dumps[key]

    for (n, pn), (secs, selfn, mism) in sorted(results.items()):
        cell = {}
        if selfn is None:
            violations.append(("%s/%s crashed" % (n, pn), mism[0] if mism else "crash", {"config": n, "profile": pn, "kind": "crash"}))
            matrix["%s/%s" % (n, pn)] = "crashed"
            continue
        if selfn:
            violations.append(("%s/%s differs from the reference model" % (n, pn), "; ".join(mism[:3]), {"config": n, "profile": pn, "kind": "self", "mismatches": mism[:10]}))
        for sec, (cnt, dig) in secs.items():
            lines_total += cnt
            same = ref[0].get(sec) == (cnt, dig)
            cell[sec] = "same" if same else "DIFFERENT"
            if same:
                continue
            if n == "strict-parser" and sec == "parser":
                probs, chk = strict_rule(dump("default", "da-off", "parser"), dump(n, pn, "parser"))
                strict_checked += chk
                cell[sec] = "differs-as-documented" if not probs else "VIOLATES-STRICT-RULE"
                for pr in probs[:5]:
                    violations.append(("strict-parser/%s %s" % (pn, pr[:160]), pr, {"config": n, "profile": pn, "kind": "strict-rule", "problem": pr}))
                continue
            fd = first_diff(dump("default", "da-off", sec), dump(n, pn, sec))
            what = "section %s differs from default/da-off" % sec
            doc = {"config": n, "profile": pn, "kind": "section", "section": sec}
            if fd:
                what += " first at line %d: default `%s` vs `%s`" % (fd[0], fd[1][:200], fd[2][:200])
                doc.update({"line": fd[0], "default_line": fd[1], "config_line": fd[2]})
            violations.append(("%s/%s section %s line `%s`" % (n, pn, sec, (fd[1] if fd else "")[:80]), what, doc))
        matrix["%s/%s" % (n, pn)] = cell
    # generator-side explorations on mc built with the generator-changing feature sets
    mc_runs = {}
    mc_jobs = [(f, pid) for (f, pids) in MC_FEATURE_RUNS[tier] for pid in pids]
    with ThreadPoolExecutor(max_workers=3) as ex:
        mouts = list(ex.map(lambda j: (j, run_mc_feature(verif, env, j[0], j[1])), mc_jobs))
    for (feats, pid), (rc, out, err, cov) in mouts:
        c = cov.get("coverage", {})
        mc_runs["%s/%s" % (feats, pid)] = {"exit": rc, "evaluations": c.get("evaluations"), "states": c.get("states"), "transitions": c.get("transitions"), "violations": cov.get("violations")}
        lines_total += int(c.get("evaluations") or c.get("transitions") or 0)
        if rc == 1:
            rp = [l.split("replay=", 1)[1].strip() for l in out.splitlines() if l.startswith("VIOLATION") and "replay=" in l]
            desc = [l.strip() for l in out.splitlines() if l.startswith("  ")]
            violations.append(("features %s: exploration of %s differs from the reference: %s" % (feats, pid, (desc[0] if desc else "")[:160]),
                               (desc[0] if desc else "violation")[:600],
                               {"config": feats, "profile": "da-off", "kind": "mc", "mc_property": pid, "mc_replay": rp[0] if rp else None}))
        elif rc < 0 or rc in (101, 132, 133, 134, 135, 136, 139):
            # the explorer itself was killed (signal / abort / escaped panic) in this feature build: with the default
            # build the same exploration completes, so the feature set changed the behaviour - that is C14's subject
            last = (err.strip().splitlines() or [""])[-1][:300]
            violations.append(("features %s: exploration of %s crashed" % (feats, pid),
                               "mc %s built with features %s died with exit %d (%s)" % (pid, feats, rc, last),
                               {"config": feats, "profile": "da-off", "kind": "mc-crash", "mc_property": pid}))
        elif rc != 0:
            sys.stderr.write(err[-2000:])
            log("mc %s with features %s failed with exit %d (machinery error, not a verdict)" % (pid, feats, rc))
            return 2
    # the strict configurations must actually differ on the tagged lines (vacuity guard)
    strict_cell = matrix.get("strict-parser/da-off", {})
    distinct = len(set(dump("default", "da-off", "parser") + dump("default", "da-off", "generator") + dump("default", "da-off", "conversions") + dump("default", "da-off", "scores")))
    wall = time.time() - t0
    # known findings
    known = []
    kf = os.path.join(verif, "known-findings.txt")
    if os.path.exists(kf):
        for l in open(kf):
            l = l.strip()
            if l.startswith("known:") and "property=C14 " in l:
                known.append(l.split("property=C14 ", 1)[1])
    new_v, known_hit = [], []
    for v in violations:
        k = next((k for k in known if v[0].startswith(k)), None)
        if k:
            if k not in known_hit:
                known_hit.append(k)
        else:
            new_v.append(v)
    samples = dump("default", "da-off", "generator")[:2] + dump("default", "da-off", "parser")[1000:1002] + dump("default", "da-off", "scores")[:1]
    ev = {
        "property_id": "C14", "tier": tier, "seed": int(os.environ.get("VERIF_SEED", "0")), "level": "model_checking",
        "coverage": {
            "evaluations": lines_total, "distinct_nontrivial": distinct,
            "rule": "the enumerated transcript (generator sequences from zero-prefix / reused starts incl. one-slice feeding and all size borders with and without the hint; %d parser texts x 6 types; conversions / normalization / dual round trips / ordering over block-hash families; scores, candidate test and index windows for all 31x31 block-size pairs x 5 templates through three routes; hash primitives) is produced in each of 7 feature sets x 2 debug-assertion settings; every line is a case; non-strict configurations must give byte-identical sections, the strict parser is compared line by line against the documented rule, every configuration also checks itself against the reference model and calls the unchecked twins / easy functions where the configuration has them; in addition the explorations of other properties are repeated (at their quick tier) on `mc` built with the unsafe / opt-reduce-fnv-table / both feature sets: quick C01 C13 C12 C05 C07 (unsafe), C19 C01 (reduced table), C13 C12 (both); thorough every check C01..C20 except C14 / C18 on the unsafe build and the generator-side checks on the other two (see explorations_on_feature_builds_of_mc); distinct_nontrivial = distinct lines of the default transcript" % (ref[0].get("parser", (0,))[0] // 6),
            "samples": samples, "configurations": len(results), "matrix": matrix,
            "strict_parser_lines_checked_against_rule": strict_checked,
            "explorations_on_feature_builds_of_mc": mc_runs,
            "sections_default": {k: {"lines": v[0], "digest": v[1]} for k, v in ref[0].items()},
            "exhaustive": True, "known_findings_hit": known_hit,
        },
        "assumptions": ["the transcript corpus is a bounded family (see DESIGN.md §4 C14); nothing is claimed for inputs outside it",
                        "configurations are built with the same compiler; --cfg a4lg_ffuzzy_verif hooks are on in all of them"],
        "wall_s": round(wall, 3), "violations": len(violations),
    }
    json.dump(ev, open(ev_path, "w"), indent=1)
    for k in known_hit:
        print("KNOWN-FINDING: property=C14 %s" % k)
    print("c14 tier=%s configurations=%d lines=%d strict_lines_checked=%d violations=%d wall=%.1fs" % (tier, len(results), lines_total, strict_checked, len(violations), wall))
    if strict_cell.get("parser") == "same" and not violations:
        log("strict-parser transcript is identical to default: the tagged raw-overflow texts are not exercising the strict parser (machinery error)")
        return 2
    if new_v:
        os.makedirs(os.path.join(verif, "replays"), exist_ok=True)
        for i, (sig, what, doc) in enumerate(new_v[:16]):
            path = os.path.join(verif, "replays", "C14-%d.json" % i)
            json.dump({"property": "C14", "tier": tier, "signature": sig, "what": what, "case": doc, "replay_cmd": "./check --replay " + path}, open(path, "w"), indent=1)
            print("  %s :: %s" % (sig, what[:400]))
            print("VIOLATION property=C14 replay=%s" % path)
        return 1
    return 0


def replay(path, verif, env):
    doc = json.load(open(path))
    c = doc["case"]
    tier = doc.get("tier", "quick")
    env = dict(env, MC_TIER=tier)
    n, pn = c["config"], c["profile"]
    if c["kind"] not in ("mc", "mc-crash") and not build_all(verif, env, tier):
        return 2
    p = dict(PROFILES)[pn]
    if c["kind"] == "mc-crash":
        feats = c["config"]
        f, rc0, out0 = build_mc_feature(verif, env, feats)
        if rc0 != 0:
            sys.stderr.write(out0)
            return 2
        rc, out, err, _ = run_mc_feature(verif, env, feats, c["mc_property"])
        print("replay: mc %s built with features %s exits %d" % (c["mc_property"], feats, rc))
        if rc not in (0, 2, 3, 5, 6, 7, 8):
            print("VIOLATION property=C14 replay=%s" % path)
            return 1
        return 0 if rc == 0 else 2
    if c["kind"] == "mc":
        feats = c["config"]
        f, rc0, out0 = build_mc_feature(verif, env, feats)
        if rc0 != 0:
            sys.stderr.write(out0)
            return 2
        r = subprocess.run([os.path.join(mc_dir(verif, feats), "release", "mc"), "replay", c["mc_replay"]], cwd=verif, env=env, stdout=subprocess.PIPE, text=True)
        sys.stdout.write(r.stdout.replace("VIOLATION property=", "inner-violation property="))
        if r.returncode == 1:
            print("VIOLATION property=C14 replay=%s" % path)
        return r.returncode
    if c["kind"] in ("crash", "self"):
        rc, out, err = run_cfg(verif, env, n, p)
        secs, selfn, mism = parse_summary(out)
        bad = rc != 0 or selfn
        print("replay: configuration %s/%s exit=%d self-mismatches=%s" % (n, pn, rc, selfn))
    elif c["kind"] == "strict-rule":
        _, d, _ = run_cfg(verif, env, "default", "release", ["--dump", "parser"])
        _, s, _ = run_cfg(verif, env, n, p, ["--dump", "parser"])
        probs, _ = strict_rule(d.splitlines(), s.splitlines())
        bad = bool(probs)
        print("replay: strict rule problems: %d" % len(probs))
    else:
        _, d, _ = run_cfg(verif, env, "default", "release", ["--dump", c["section"]])
        _, s, _ = run_cfg(verif, env, n, p, ["--dump", c["section"]])
        fd = first_diff(d.splitlines(), s.splitlines())
        bad = fd is not None
        print("replay: section %s in %s/%s %s" % (c["section"], n, pn, ("differs at line %d" % fd[0]) if fd else "is identical to default"))
    if bad:
        print("VIOLATION property=C14 replay=%s" % path)
        return 1
    return 0
