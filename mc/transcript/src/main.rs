//! `transcript` — the shared input corpus run in ONE build configuration of ffuzzy
//! (features forwarded from this crate's features; debug assertions by profile).
//! It uses only API that exists in every configuration (`Display` instead of
//! `to_string`, `Generator` instead of `hash_buf`; where easy functions exist
//! they are also called and must equal the printed line), checks each result
//! against the reference model, and emits one digest per section.
//!
//!   transcript                 -> "SECTION <name> <lines> <digest>" per section, "SELF <n>" mismatches
//!   transcript --dump <name>   -> the raw lines of one section

#![allow(deprecated)]
#![allow(clippy::all)]

#[path = "../../mc/src/corpus.rs"]
#[allow(dead_code)]
mod corpus;

use refmodel::ctph::Ctph;
use refmodel::text as rt;
use ssdeep::*;
use std::fmt::Write as _;

const MAX: u64 = 192u64 << 30;

struct Out {
    sections: Vec<(String, Vec<String>)>,
    self_mismatches: Vec<String>,
}
impl Out {
    fn section(&mut self, name: &str) {
        self.sections.push((name.to_string(), vec![]));
    }
    fn line(&mut self, l: String) {
        self.sections.last_mut().unwrap().1.push(l);
    }
    fn bad(&mut self, l: String) {
        if self.self_mismatches.len() < 50 {
            self.self_mismatches.push(l);
        }
    }
}

fn h64(bytes: &[u8], mut h: u64) -> u64 {
    for &b in bytes {
        h ^= b as u64;
        h = h.wrapping_mul(0x100000001b3);
    }
    h
}

fn fin(g: &Generator) -> String {
    let a = g.finalize().map(|h| format!("{}", h)).unwrap_or_else(|e| format!("Err({:?})", e));
    let b = g.finalize_without_truncation().map(|h| format!("{}", h)).unwrap_or_else(|e| format!("Err({:?})", e));
    let c = g.finalize_raw::<false, 64, 32>().map(|h| format!("{}", h)).unwrap_or_else(|e| format!("Err({:?})", e));
    format!("{}|{}|{}|{}|{}", a, b, c, g.input_size(), g.may_warn_about_small_input_size())
}
fn fin_ref(r: &Ctph) -> String {
    match r.digest() {
        Err(_) => format!("Err(InputSizeTooLarge)|Err(InputSizeTooLarge)|Err(InputSizeTooLarge)|{}|{}", r.size(), r.size() < 4097),
        Ok(d) => {
            let c = if d.bh2_long.len() <= 32 { d.text_long() } else { "Err(OutputOverflow)".to_string() };
            format!("{}|{}|{}|{}|{}", d.text_trunc(), d.text_long(), c, r.size(), r.size() < 4097)
        }
    }
}

fn start(zp: u64, dirty: bool) -> Generator {
    if dirty {
        let mut g = Generator::new();
        g.update(&corpus::repeat(&corpus::W[30], 70));
        g.update(&[1, 2, 3]);
        g.reset();
        if zp != 0 {
            g.verif_feed_zero_bytes(zp);
        }
        g
    } else if zp == 0 {
        Generator::new()
    } else {
        Generator::verif_new_with_prefix_zeroes(zp)
    }
}

fn feed(g: &mut Generator, w: &[u8], form: usize) {
    match form % 3 {
        0 => {
            g.update(w);
        }
        1 => {
            g.update_by_iter(w.iter().copied());
        }
        _ => {
            for &c in w {
                g.update_by_byte(c);
            }
        }
    }
}

fn thorough() -> bool {
    std::env::var("MC_TIER").map(|v| v == "thorough").unwrap_or(false)
}
/// tiny corpus for the UB monitor (miri is 100-1000x slower than native code)
fn tiny() -> bool {
    std::env::var("MC_TIER").map(|v| v == "miri").unwrap_or(false)
}

fn section_generator(out: &mut Out) {
    out.section("generator");
    let alpha = corpus::gen_alphabet();
    let counts = [1usize, 31, 32, 33, 64, 65];
    let zps_all = [0u64, 5, (192u64 << 10) - 300, (192u64 << 29) + 1 - 448, (192u64 << 30) - 448, (192u64 << 30) - 440];
    let zps: &[u64] = if tiny() { &zps_all[4..5] } else { &zps_all[..] };
    for (zi, &zp) in zps.iter().enumerate() {
        for dirty in [false, true] {
            if dirty && zi % 2 == 1 && !thorough() {
                continue;
            }
            for k1 in (0..alpha.len()).step_by(if tiny() { 9 } else if zp == 0 || thorough() { 1 } else { 3 }) {
                let w1 = &alpha[k1].1;
                let mut g = start(zp, dirty);
                let mut r = Ctph::new(zp);
                let mut fed = 0usize;
                for &c1 in &counts {
                    while fed < c1 {
                        feed(&mut g, w1, fed + k1);
                        if !tiny() {
                            r.feed_all(w1);
                        }
                        fed += 1;
                    }
                    let a = fin(&g);
                    let b = if tiny() { a.clone() } else { fin_ref(&r) };
                    if a != b {
                        out.bad(format!("generator zp={} dirty={} {}^{}: {} != reference {}", zp, dirty, alpha[k1].0, c1, a, b));
                    }
                    out.line(format!("G {} {} {}^{} {}", zp, dirty, alpha[k1].0, c1, a));
                    // second segment, fed as ONE slice together with one more word of the first (state cached
                    // across the loop of a single call is otherwise invisible)
                    for k2 in [0usize, 5, 30, 31, 33] {
                        if k2 == k1 {
                            continue;
                        }
                        let mut buf: Vec<u8> = w1.clone();
                        buf.extend(corpus::repeat(&alpha[k2].1, 33));
                        let mut g2 = g.clone();
                        let mut r2 = r.clone();
                        g2.update(&buf);
                        if !tiny() {
                            r2.feed_all(&buf);
                        }
                        let a = fin(&g2);
                        let b = if tiny() { a.clone() } else { fin_ref(&r2) };
                        if a != b {
                            out.bad(format!("generator zp={} dirty={} {}^{} +slice {}^33: {} != reference {}", zp, dirty, alpha[k1].0, c1, alpha[k2].0, a, b));
                        }
                        out.line(format!("G {} {} {}^{} {}^33 {}", zp, dirty, alpha[k1].0, c1 + 1, alpha[k2].0, a));
                    }
                }
            }
        }
    }
    // borders with and without the correct hint
    for n in (0..=30u32).step_by(if tiny() { 10 } else { 1 }) {
        for delta in [-1i64, 0, 1] {
            let total = ((192u64 << n) as i64 + delta) as u64;
            for k in [n as usize, (n as usize + 1).min(30), 30, 0] {
                for m in [32usize, 64, 65] {
                    if total < 7 * m as u64 {
                        continue;
                    }
                    let zp = total - 7 * m as u64;
                    for hint in [false, true] {
                        let mut g = start(zp, false);
                        let mut r = Ctph::new(zp);
                        if hint {
                            let res = g.set_fixed_input_size(total);
                            if res.is_err() != (total > MAX) {
                                out.bad(format!("hint {} -> {:?}", total, res));
                            }
                        }
                        let buf = corpus::repeat(&corpus::W[k], m);
                        feed(&mut g, &buf, n as usize + m);
                        if !tiny() {
                            r.feed_all(&buf);
                        }
                        let a = fin(&g);
                        let b = if tiny() { a.clone() } else { fin_ref(&r) };
                        if a != b {
                            out.bad(format!("border n={} delta={} W{}^{} hint={}: {} != reference {}", n, delta, k, m, hint, a, b));
                        }
                        out.line(format!("B {} {} W{}^{} {} {}", n, delta, k, m, hint, a));
                    }
                }
            }
        }
    }
    // easy functions where they exist must agree with the generator
    #[cfg(feature = "easy-functions")]
    {
        for k in 0..alpha.len() {
            let buf = corpus::repeat(&alpha[k].1, 66);
            let e = hash_buf(&buf).map(|h| format!("{}", h)).unwrap_or_else(|e| format!("Err({:?})", e));
            let mut g = Generator::new();
            g.update(&buf);
            let d = g.finalize().map(|h| format!("{}", h)).unwrap_or_else(|e| format!("Err({:?})", e));
            if e != d {
                out.bad(format!("hash_buf({}^66) = {} but the generator gives {}", alpha[k].0, e, d));
            }
        }
    }
    #[cfg(all(feature = "easy-functions", feature = "std"))]
    {
        let buf = corpus::repeat(&corpus::W[2], 5000);
        let e = hash_stream(&mut &buf[..]).map(|h| format!("{}", h)).unwrap_or_else(|e| format!("Err({})", e));
        let mut g = Generator::new();
        g.update(&buf);
        let d = format!("{}", g.finalize().unwrap());
        if e != d {
            out.bad(format!("hash_stream = {} but the generator gives {}", e, d));
        }
    }
}

fn b64s(v: &[u8]) -> Vec<u8> {
    v.iter().map(|&x| refmodel::B64[x as usize]).collect()
}

fn texts() -> Vec<Vec<u8>> {
    let mut texts = vec![];
    for bs in ["3", "6144", "3221225472", "0", "03", "4", "4294967296", "", "6 "] {
        for l1 in [0usize, 1, 5, 60, 63, 64, 65, 70] {
            for r1 in [0usize, 3, 4, 5, 9, 32, 60, 64, 70] {
                for (l2, r2) in [(0usize, 0usize), (3, 0), (31, 4), (32, 0), (33, 0), (28, 5), (28, 9), (64, 0), (60, 8), (0, 40), (29, 0), (30, 0), (61, 0), (62, 0), (26, 4), (0, 32), (0, 64), (0, 28)] {
                    for tail in ["", ",x", ":", "@"] {
                        if !(bs == "3" || bs == "3221225472") && !(tail.is_empty() && r1 <= 4) {
                            continue;
                        }
                        let mut t = bs.as_bytes().to_vec();
                        t.push(b':');
                        let mut b1 = b64s(&corpus::ramp(l1, 0));
                        b1.extend(std::iter::repeat(b'A').take(r1));
                        t.extend(&b1);
                        t.push(b':');
                        let mut b2 = b64s(&corpus::ramp(l2, 9));
                        b2.extend(std::iter::repeat(b'/').take(r2));
                        b2.extend(b64s(&corpus::ramp(l2.min(2), 30)));
                        t.extend(&b2);
                        t.extend(tail.as_bytes());
                        texts.push(t);
                    }
                }
            }
        }
    }
    for s in ["3", "", ":", "3:", "3:A", "3:A:", "3::", "3:::", "3::,", "3:A,B:C", "3:\u{e9}:"] {
        texts.push(s.as_bytes().to_vec());
    }
    // block hashes exactly at capacity that consist of runs of four (eight) only: every run-length entry is used
    for (n1, n2, len) in [(16usize, 8usize, 4usize), (16, 16, 4), (8, 4, 8), (8, 8, 8), (15, 8, 4), (16, 7, 4)] {
        let runs = |n: usize| -> Vec<u8> { (0..n).flat_map(|r| vec![b'A' + r as u8; len]).collect() };
        for tail in ["", ",x"] {
            let mut t = b"6:".to_vec();
            t.extend(runs(n1));
            t.push(b':');
            t.extend(runs(n2));
            t.extend(tail.as_bytes());
            texts.push(t);
        }
    }
    texts.sort();
    texts.dedup();
    texts
}

/// raw block hash lengths of a text, when it has the grammar's shape
fn raw_lengths(t: &[u8]) -> Option<(usize, usize)> {
    let c1 = t.iter().position(|&c| c == b':')?;
    let rest = &t[c1 + 1..];
    let n1 = rest.iter().take_while(|&&c| refmodel::b64_index(c).is_some()).count();
    if rest.get(n1) != Some(&b':') {
        return Some((n1, 0));
    }
    let rest2 = &rest[n1 + 1..];
    let n2 = rest2.iter().take_while(|&&c| refmodel::b64_index(c).is_some()).count();
    Some((n1, n2))
}

fn section_parser(out: &mut Out) {
    out.section("parser");
    const STRICT: bool = cfg!(feature = "strict-parser");
    macro_rules! parse_line {
        ($ty:ty, $name:expr, $cap2:expr, $norm:expr, $dual:expr, $t:expr, $tag:expr) => {{
            let t: &[u8] = $t;
            let mut idx = 7777usize;
            let r = <$ty>::from_bytes_with_last_index(t, &mut idx);
            let r2 = <$ty>::from_bytes(t);
            let rule = rt::Rule { cap1: 64, cap2: $cap2, count_normalized: $norm && !$dual && !STRICT, strict: STRICT };
            let exp = rt::parse(t, rule);
            let line = match &r {
                Ok(h) => format!("P {} {} {} Ok {:?} {}", $tag, $name, hexs(t), h, idx),
                Err(e) => format!("P {} {} {} Err {:?} {:?} {} {} [{}] [{:>60.40}]", $tag, $name, hexs(t), e.origin(), e.kind(), e.offset(), idx, e, e),
            };
            if r.is_ok() != exp.is_ok() || r.is_ok() != r2.is_ok() {
                out.bad(format!("parse {} {}: accepted={} reference accepts={}", $name, String::from_utf8_lossy(t), r.is_ok(), exp.is_ok()));
            }
            out.line(line);
        }};
    }
    for t in texts().into_iter().step_by(if tiny() { 97 } else { 1 }) {
        let (n1, n2) = raw_lengths(&t).unwrap_or((0, 0));
        // tag: which capacities the raw text exceeds
        let tag = format!("OVF{}{}{}", if n1 > 64 { "1" } else { "-" }, if n2 > 32 { "s" } else { "-" }, if n2 > 64 { "l" } else { "-" });
        parse_line!(RawFuzzyHash, "Raw", 32, false, false, &t[..], tag);
        parse_line!(LongRawFuzzyHash, "LongRaw", 64, false, false, &t[..], tag);
        parse_line!(FuzzyHash, "Norm", 32, true, false, &t[..], tag);
        parse_line!(LongFuzzyHash, "LongNorm", 64, true, false, &t[..], tag);
        parse_line!(DualFuzzyHash, "Dual", 32, false, true, &t[..], tag);
        parse_line!(LongDualFuzzyHash, "LongDual", 64, false, true, &t[..], tag);
    }
}

fn hexs(b: &[u8]) -> String {
    let mut s = String::new();
    for &c in b {
        if (0x21..0x7f).contains(&c) && c != b'%' {
            s.push(c as char);
        } else {
            let _ = write!(s, "%{:02x}", c);
        }
    }
    s
}

fn contents() -> Vec<(u8, Vec<u8>, Vec<u8>)> {
    let mut v = vec![];
    let fam1 = corpus::bh_family(64, false);
    let small = corpus::small_set();
    let t = thorough();
    for (i, a) in fam1.iter().enumerate().step_by(if t { 1 } else { 7 }) {
        v.push((((i * 5) % 31) as u8, a.clone(), small[i % small.len()].clone()));
    }
    let fam2 = corpus::bh_family(32, false);
    for (i, b) in fam2.iter().enumerate().step_by(if t { 1 } else { 5 }) {
        v.push((((i * 3) % 31) as u8, small[i % small.len()].clone(), b.clone()));
    }
    for (i, b) in fam1.iter().enumerate().step_by(if t { 3 } else { 41 }) {
        v.push((30, small[i % small.len()].clone(), b.clone()));
    }
    v
}

fn section_conversions(out: &mut Out) {
    out.section("conversions");
    for (log, a, b) in contents().into_iter().step_by(if tiny() { 61 } else { 1 }) {
        let long = LongRawFuzzyHash::new_from_internals_near_raw(log, &a, &b);
        let ln = long.normalize();
        let mut in_place = long;
        in_place.normalize_in_place();
        let dual = LongDualFuzzyHash::from_raw_form(&long);
        let back = dual.to_raw_form();
        let mut dirty = LongRawFuzzyHash::new_from_internals_near_raw(30, &[63; 64], &[63; 64]);
        dual.into_mut_raw_form(&mut dirty);
        let mut buf = [0u8; MAX_LEN_IN_STR + 4];
        let n = long.store_into_bytes(&mut buf).unwrap_or(9999);
        let exp_raw = rt::format(log, &a, &b);
        let exp_norm = rt::format(log, &refmodel::normalize(&a), &refmodel::normalize(&b));
        let line = format!(
            "V {} | {} | {} | {} | {} | {} | {:?} | {} {} {} | {}",
            long, ln, in_place, dual, back, dirty, dual, ln.is_valid(), dual.is_valid(), back.full_eq(&long) && dirty.full_eq(&long), n
        );
        if format!("{}", long) != exp_raw || format!("{}", ln) != exp_norm || format!("{}", back) != exp_raw || format!("{}", in_place) != exp_norm || !dual.is_valid() {
            out.bad(format!("conversion of {}: {}", exp_raw, line));
        }
        out.line(line);
        if b.len() <= 32 {
            let short = RawFuzzyHash::new_from_internals_near_raw(log, &a, &b);
            let sn = FuzzyHash::from(short);
            let sd = DualFuzzyHash::from_raw_form(&short);
            let mut wide = LongFuzzyHash::from_raw_form(&LongRawFuzzyHash::new_from_internals_near_raw(30, &[63; 64], &[63; 64]));
            sn.into_mut_long_form(&mut wide);
            let narrowed: Result<RawFuzzyHash, _> = RawFuzzyHash::try_from(long);
            let reparsed: Result<FuzzyHash, _> = FuzzyHash::from_bytes(exp_raw.as_bytes());
            let line = format!(
                "W {} | {} | {} | {} | {:?} | {:?} | {} {}",
                short, sn, sd.to_raw_form(), wide, narrowed.map(|h| format!("{}", h)), reparsed.as_ref().map(|h| format!("{}", h)).map_err(|e| e.kind()),
                wide.is_valid(), sd.is_valid()
            );
            if format!("{}", sn) != exp_norm || !wide.is_valid() || format!("{}", wide) != exp_norm {
                out.bad(format!("short conversion of {}: {}", exp_raw, line));
            }
            out.line(line);
            out.line(format!("G [{:>90}] [{:.7}] [{:^11.2}] [{:#<5}] [{:#?}]", short, sn, sd, wide, sd));
        } else {
            let narrowed: Result<RawFuzzyHash, _> = RawFuzzyHash::try_from(long);
            out.line(format!("N {} {:?}", long, narrowed.map(|h| format!("{}", h))));
        }
        // formatting with width / precision / fill / alternate flags (every build must render the same)
        out.line(format!("F [{:>150}] [{:.5}] [{:^9.3}] [{:*<12}] [{:140}] [{:.0}] [{:#?}] [{:8.4?}]", long, ln, dual, in_place, dual, back, ln, long.log_block_size()));
        // ordering / equality / hashing of the produced objects is part of the results
        let other = LongRawFuzzyHash::new_from_internals_near_raw(log, &b[..b.len().min(64)], &a[..a.len().min(64)]);
        out.line(format!("O {:?} {} {:?}", long.cmp(&other), long == other, dual.cmp(&LongDualFuzzyHash::from_raw_form(&other))));
    }
}

fn section_scores(out: &mut Out) {
    out.section("scores");
    let x = corpus::ramp(40, 0);
    let mut x1 = x.clone();
    x1[20] = 0;
    let y = corpus::ramp(20, 7);
    let mut y1 = y.clone();
    y1.insert(3, 63);
    let tpl: Vec<(Vec<u8>, Vec<u8>, Vec<u8>, Vec<u8>)> = vec![
        (x.clone(), y.clone(), x1.clone(), x.clone()),
        (x.clone(), y.clone(), x.clone(), y.clone()),
        (y.clone(), x.clone(), y1.clone(), x1.clone()),
        (corpus::ramp(7, 0), vec![], corpus::ramp(8, 0), vec![]),
        (x.clone(), y.clone(), corpus::ramp(12, 50), corpus::ramp(9, 44)),
    ];
    for la in (0..31u8).step_by(if tiny() { 7 } else { 1 }) {
        for lb in (0..31u8).step_by(if tiny() { 5 } else { 1 }) {
            for (k, t) in tpl.iter().enumerate() {
                let a = LongFuzzyHash::new_from_internals_near_raw(la, &t.0, &t.1);
                let b = LongFuzzyHash::new_from_internals_near_raw(lb, &t.2, &t.3);
                let tg = FuzzyHashCompareTarget::from(&a);
                let mut tg2 = FuzzyHashCompareTarget::from(&b);
                tg2.init_from(&a);
                let s1 = a.compare(&b);
                let s2 = tg.compare(&b);
                let s3 = tg2.compare(&b);
                let cand = tg.is_comparison_candidate(&b);
                let w: Vec<u64> = a.block_hash_1_index_windows().take(2).chain(a.block_hash_2_index_windows().take(1)).collect();
                let exp = refmodel::score(la, &t.0, &t.1, lb, &t.2, &t.3);
                if s1 != exp || s2 != exp || s3 != exp {
                    out.bad(format!("score la={} lb={} template {}: {} {} {} != reference {}", la, lb, k, s1, s2, s3, exp));
                }
                #[cfg(feature = "easy-functions")]
                {
                    let ta = format!("{}", a);
                    let tb = format!("{}", b);
                    let e = compare(&ta, &tb);
                    if e.as_ref().ok() != Some(&s1) {
                        out.bad(format!("ssdeep::compare({}, {}) = {:?} but objects give {}", ta, tb, e, s1));
                    }
                }
                #[cfg(feature = "unchecked")]
                {
                    // unchecked twins on in-contract arguments must agree with the checked entry points
                    if !tg.is_equiv(&b) {
                        let u = unsafe { tg.compare_unequal_unchecked(&b) };
                        if u != s2 {
                            out.bad(format!("compare_unequal_unchecked = {} but compare = {}", u, s2));
                        }
                        if a != b {
                            let u2 = unsafe { a.compare_unequal_unchecked(&b) };
                            if u2 != s1 {
                                out.bad(format!("hash compare_unequal_unchecked = {} but compare = {}", u2, s1));
                            }
                        }
                    }
                    if la == lb {
                        let u = unsafe { tg.compare_near_eq_unchecked(&b) };
                        let c = unsafe { tg.is_comparison_candidate_near_eq_unchecked(&b) };
                        if u != s2 || c != cand {
                            out.bad(format!("near_eq unchecked twins disagree: {} {} vs {} {}", u, c, s2, cand));
                        }
                        if !tg.is_equiv(&b) {
                            let u2 = unsafe { tg.compare_unequal_near_eq_unchecked(&b) };
                            if u2 != tg.compare_unequal_near_eq(&b) || u2 != s2 {
                                out.bad(format!("compare_unequal_near_eq unchecked twin disagrees: {} vs {}", u2, s2));
                            }
                        }
                    }
                    if la + 1 == lb {
                        let u = unsafe { tg.compare_unequal_near_lt_unchecked(&b) };
                        let c = unsafe { tg.is_comparison_candidate_near_lt_unchecked(&b) };
                        if u != tg.compare_unequal_near_lt(&b) || u != s2 || c != tg.is_comparison_candidate_near_lt(&b) || c != cand {
                            out.bad(format!("near_lt unchecked twins disagree: {} {} vs {} {}", u, c, s2, cand));
                        }
                    }
                    if la == lb + 1 {
                        let u = unsafe { tg.compare_unequal_near_gt_unchecked(&b) };
                        let c = unsafe { tg.is_comparison_candidate_near_gt_unchecked(&b) };
                        if u != tg.compare_unequal_near_gt(&b) || u != s2 || c != tg.is_comparison_candidate_near_gt(&b) || c != cand {
                            out.bad(format!("near_gt unchecked twins disagree: {} {} vs {} {}", u, c, s2, cand));
                        }
                    }
                    for n in 0..4u8 {
                        let cc = FuzzyHashCompareTarget::score_cap_on_block_hash_comparison(n, t.0.len() as u8, t.2.len() as u8);
                        let cu = unsafe { FuzzyHashCompareTarget::score_cap_on_block_hash_comparison_unchecked(n, t.0.len() as u8, t.2.len() as u8) };
                        if cc != cu {
                            out.bad(format!("score cap unchecked twin disagrees at n={}: {} vs {}", n, cu, cc));
                        }
                    }
                }
                // the checked position-array entry points at the effective block sizes (31 for block hash 2 of
                // the largest size), and their unchecked twins where the configuration has them
                {
                    use ssdeep::internal_comparison::BlockHashPositionArrayImpl;
                    let r = std::panic::catch_unwind(std::panic::AssertUnwindSafe(|| {
                        let p1 = tg.block_hash_1();
                        let p2 = tg.block_hash_2();
                        (
                            p1.score_strings(b.block_hash_1(), la),
                            p2.score_strings(b.block_hash_2(), la + 1),
                            p1.edit_distance(b.block_hash_1()),
                            p2.has_common_substring(b.block_hash_2()),
                            p1.is_equiv(b.block_hash_1()),
                            p1.score_strings_raw(b.block_hash_1()),
                        )
                    }));
                    match r {
                        Ok(v) => {
                            #[cfg(feature = "unchecked")]
                            {
                                use ssdeep::internal_comparison::BlockHashPositionArrayImplUnchecked;
                                let p1 = tg.block_hash_1();
                                let p2 = tg.block_hash_2();
                                let u = unsafe {
                                    (
                                        p1.score_strings_unchecked(b.block_hash_1(), la),
                                        p2.score_strings_unchecked(b.block_hash_2(), la + 1),
                                        p1.edit_distance_unchecked(b.block_hash_1()),
                                        p2.has_common_substring_unchecked(b.block_hash_2()),
                                        p1.is_equiv_unchecked(b.block_hash_1()),
                                        p1.score_strings_raw_unchecked(b.block_hash_1()),
                                    )
                                };
                                if u != v {
                                    out.bad(format!("position array unchecked twins disagree at la={} lb={} template {}: {:?} vs {:?}", la, lb, k, u, v));
                                }
                            }
                            if la == lb && a != b && v.0.max(v.1) != s2 {
                                out.bad(format!("position-array scores {:?} disagree with compare = {} at la=lb={} template {}", v, s2, la, k));
                            }
                            out.line(format!("A {} {} {} {:?}", la, lb, k, v));
                        }
                        Err(_) => {
                            out.bad(format!("checked position-array entry point panicked on in-contract arguments at la={} lb={} template {}", la, lb, k));
                            out.line(format!("A {} {} {} PANIC", la, lb, k));
                        }
                    }
                }
                out.line(format!("S {} {} {} {} {} {} {} {:?}", la, lb, k, s1, s2, s3, cand, w));
            }
        }
    }
    #[cfg(feature = "unchecked")]
    {
        for log in 0..31u8 {
            let bs = unsafe { block_size::from_log_unchecked(log) };
            let l = unsafe { block_size::log_from_valid_unchecked(bs) };
            if Some(bs) != block_size::from_log(log) || l != log {
                out.bad(format!("block size unchecked twins disagree at log {}", log));
            }
        }
        for (log, a, b) in contents().into_iter().take(300) {
            let c = LongRawFuzzyHash::new_from_internals_near_raw(log, &a, &b);
            let u = unsafe { LongRawFuzzyHash::new_from_internals_near_raw_unchecked(log, &a, &b) };
            let u2 = unsafe { LongRawFuzzyHash::new_from_internals_unchecked(3u32 << log, &a, &b) };
            let d = LongDualFuzzyHash::new_from_internals_near_raw(log, &a, &b);
            let du = unsafe { LongDualFuzzyHash::new_from_internals_near_raw_unchecked(log, &a, &b) };
            // the array forms
            let u3 = unsafe { LongRawFuzzyHash::new_from_internals_raw_unchecked(log, c.block_hash_1_as_array(), c.block_hash_2_as_array(), c.block_hash_1_len() as u8, c.block_hash_2_len() as u8) };
            let mut u4 = LongRawFuzzyHash::new_from_internals_near_raw(30, &[63; 64], &[63; 64]);
            unsafe { u4.init_from_internals_raw_unchecked(log, c.block_hash_1_as_array(), c.block_hash_2_as_array(), c.block_hash_1_len() as u8, c.block_hash_2_len() as u8) };
            let c3 = LongRawFuzzyHash::new_from_internals_raw(log, c.block_hash_1_as_array(), c.block_hash_2_as_array(), c.block_hash_1_len() as u8, c.block_hash_2_len() as u8);
            if !c.full_eq(&u3) || !c.full_eq(&u4) || !c.full_eq(&c3) {
                out.bad(format!("unchecked array constructors disagree for {}", c));
            }
            if !c.full_eq(&u) || !c.full_eq(&u2) || d != du {
                out.bad(format!("unchecked constructors disagree for {}", c));
            }
            let ln = c.normalize();
            let s = unsafe { FuzzyHashCompareTarget::raw_score_by_edit_distance_unchecked(10, 12, 4) };
            if s != FuzzyHashCompareTarget::raw_score_by_edit_distance(10, 12, 4) {
                out.bad("raw_score unchecked twin".to_string());
            }
            let _ = ln;
        }
    }
}

fn section_primitives(out: &mut Out) {
    use ssdeep::internal_hashes::{PartialFNVHash, RollingHash};
    out.section("primitives");
    let mut strings: Vec<Vec<u8>> = vec![vec![], vec![0], vec![255; 20], (0..=255u8).collect()];
    for k in 0..31 {
        strings.push(corpus::repeat(&corpus::W[k], 3));
    }
    for s in strings {
        let mut f = PartialFNVHash::new();
        let mut r = RollingHash::new();
        let mut line = String::new();
        for (i, &c) in s.iter().enumerate() {
            f.update_by_byte(c);
            r.update_by_byte(c);
            if f.value() != refmodel::fnv6(&s[..=i]) || r.value() != refmodel::roll(&s[..=i]) {
                out.bad(format!("primitive after {} bytes", i + 1));
            }
            let _ = write!(line, "{:02x}{:08x}", f.value(), r.value());
        }
        let mut f2 = PartialFNVHash::new();
        f2.update(&s);
        let mut r2 = RollingHash::new();
        r2.update_by_iter(s.iter().copied());
        out.line(format!("H {} {} {} {}", s.len(), f2.value(), r2.value(), line));
    }
}

/// Constructors documented to panic on out-of-contract arguments: the outcome (panic, or the object) is a
/// result like any other and must not depend on the configuration.
fn section_constructors(out: &mut Out) {
    use std::panic::{catch_unwind, AssertUnwindSafe};
    out.section("constructors");
    let args: Vec<(u8, Vec<u8>, Vec<u8>)> = vec![
        (0, vec![1, 2, 3], vec![4]),
        (0, vec![64], vec![]),
        (0, vec![1, 255], vec![2]),
        (0, vec![1; 65], vec![]),
        (0, vec![], corpus::ramp(33, 0)),
        (0, vec![5, 5, 5, 5], vec![]),
        (31, vec![1], vec![1]),
        (30, corpus::ramp(64, 0), corpus::ramp(32, 0)),
        (0, vec![], vec![1; 65]),
        (5, vec![], vec![200]),
    ];
    let z = |v: Vec<u8>| {
        let mut a = v;
        a.resize(64, 0);
        a
    };
    let mut dirty_tail = z(vec![1, 2, 3]);
    dirty_tail[10] = 7;
    let mut dirty_tail2 = z(vec![]);
    dirty_tail2[31] = 1;
    let arrays: Vec<(u8, Vec<u8>, Vec<u8>, u8, u8)> = vec![
        (3, z(vec![1, 2, 3]), z(vec![4, 5]), 3, 2),
        (3, dirty_tail, z(vec![]), 3, 0),
        (3, z(vec![]), dirty_tail2, 0, 0),
        (3, z(corpus::ramp(64, 0)), z(vec![]), 65, 0),
        (3, z(vec![]), z(corpus::ramp(32, 0)), 0, 33),
        (3, z(vec![1, 64, 3]), z(vec![]), 3, 0),
        (3, z(vec![6, 6, 6, 6, 6]), z(vec![]), 5, 0),
        (31, z(vec![1]), z(vec![]), 1, 0),
        (3, z(vec![]), z(vec![200, 200]), 0, 0),
    ];
    macro_rules! show {
        ($tag:expr, $e:expr) => {{
            let r = catch_unwind(AssertUnwindSafe(|| $e));
            match r {
                Ok(h) => out.line(format!("K {} Ok {:?} valid={}", $tag, h, h.is_valid())),
                Err(_) => out.line(format!("K {} PANIC", $tag)),
            }
        }};
    }
    macro_rules! plain {
        ($ty:ty, $name:expr, $cap2:expr) => {
            for (i, (log, a, b)) in args.iter().enumerate() {
                let bs: u32 = if *log < 31 { 3u32 << *log } else { 4 };
                show!(format!("{} near_raw {}", $name, i), <$ty>::new_from_internals_near_raw(*log, a, b));
                show!(format!("{} internals {}", $name, i), <$ty>::new_from_internals(bs, a, b));
            }
            for (i, (log, a, b, l1, l2)) in arrays.iter().enumerate() {
                let mut x1 = [0u8; 64];
                x1.copy_from_slice(&a[..64]);
                let mut x2 = [0u8; $cap2];
                x2.copy_from_slice(&b[..$cap2]);
                show!(format!("{} raw {}", $name, i), <$ty>::new_from_internals_raw(*log, &x1, &x2, *l1, *l2));
                show!(format!("{} init_raw {}", $name, i), {
                    let mut h = <$ty>::new();
                    h.init_from_internals_raw(*log, &x1, &x2, *l1, *l2);
                    h
                });
            }
        };
    }
    plain!(RawFuzzyHash, "Raw", 32);
    plain!(LongRawFuzzyHash, "LongRaw", 64);
    plain!(FuzzyHash, "Norm", 32);
    plain!(LongFuzzyHash, "LongNorm", 64);
    for (i, (log, a, b)) in args.iter().enumerate() {
        let bs: u32 = if *log < 31 { 3u32 << *log } else { 4 };
        show!(format!("Dual near_raw {}", i), DualFuzzyHash::new_from_internals_near_raw(*log, a, b));
        show!(format!("LongDual internals {}", i), LongDualFuzzyHash::new_from_internals(bs, a, b));
    }
    // every byte value as a symbol, through the slice and the array constructors of every type
    if !tiny() {
        for v in 0..=255u8 {
            let (a, b) = (vec![1u8, v, 2], vec![v]);
            let mut x1 = [0u8; 64];
            x1[..3].copy_from_slice(&a);
            let (mut x2s, mut x2l) = ([0u8; 32], [0u8; 64]);
            x2s[0] = v;
            x2l[0] = v;
            show!(format!("Raw sym {}", v), RawFuzzyHash::new_from_internals_near_raw(2, &a, &b));
            show!(format!("LongRaw sym {}", v), LongRawFuzzyHash::new_from_internals(12, &a, &b));
            show!(format!("Norm sym {}", v), FuzzyHash::new_from_internals(12, &a, &b));
            show!(format!("LongNorm sym {}", v), LongFuzzyHash::new_from_internals_near_raw(2, &a, &b));
            show!(format!("Dual sym {}", v), DualFuzzyHash::new_from_internals(12, &a, &b));
            show!(format!("LongDual sym {}", v), LongDualFuzzyHash::new_from_internals_near_raw(2, &a, &b));
            show!(format!("Raw rawsym {}", v), RawFuzzyHash::new_from_internals_raw(2, &x1, &x2s, 3, 1));
            show!(format!("LongNorm rawsym {}", v), LongFuzzyHash::new_from_internals_raw(2, &x1, &x2l, 3, 1));
        }
    }
    // position array initialisation with in- and out-of-contract lengths / symbols
    {
        use ssdeep::internal_comparison::{BlockHashPositionArray, BlockHashPositionArrayData, BlockHashPositionArrayImpl};
        let sym = |n: usize| -> Vec<u8> { (0..n).map(|i| (i % 64) as u8).collect() };
        let mut probes: Vec<Vec<u8>> = [0usize, 1, 7, 63, 64, 65, 128, 255, 256, 257, 320, 512, 65536, 65600].iter().map(|&n| sym(n)).collect();
        for bad in [64u8, 128, 191, 192, 255] {
            probes.push(vec![1, bad, 2]);
        }
        for (i, pr) in probes.iter().enumerate() {
            let mut pa = BlockHashPositionArray::new();
            pa.init_from(&[5, 6, 7]);
            let r = catch_unwind(AssertUnwindSafe(|| pa.init_from(pr)));
            out.line(format!("K pa_init {} len={} {} after: valid={} len={} {:?}", i, pr.len(), if r.is_ok() { "Ok" } else { "PANIC" }, pa.is_valid(), pa.len(), pa.representation()));
        }
    }
    // Display / Debug of the error types, with and without format specs
    {
        let perr = FuzzyHash::from_bytes(b"3:@").unwrap_err();
        let perr2 = LongDualFuzzyHash::from_bytes(b"5:A:B").unwrap_err();
        out.line(format!("K errdisp [{}] [{:?}] [{:>50}] [{:.9}] [{}] [{}] [{:?}]", perr, perr, perr, perr, perr.kind(), perr.origin(), perr2));
        for e in [GeneratorError::FixedSizeMismatch, GeneratorError::FixedSizeTooLarge, GeneratorError::InputSizeTooLarge, GeneratorError::OutputOverflow] {
            out.line(format!("K errdisp gen [{}] [{:?}] [{:>44}] [{:.7}] {}", e, e, e, e, e.is_size_too_large_error()));
        }
        for e in [FuzzyHashOperationError::BlockHashOverflow, FuzzyHashOperationError::StringizationOverflow] {
            out.line(format!("K errdisp op [{}] [{:?}] [{:^40}] [{:.3}]", e, e, e, e));
        }
    }
    for v in [3u32, 4, 0, 6, 7, u32::MAX] {
        let r = catch_unwind(|| block_size::log_from_valid(v));
        out.line(format!("K log_from_valid {} {:?}", v, r.ok()));
    }
    for (l1, l2, d) in [(7u8, 7u8, 0u32), (6, 7, 0), (7, 65, 0), (7, 7, 1), (64, 64, 115), (64, 64, 114)] {
        let r = catch_unwind(|| FuzzyHashCompareTarget::raw_score_by_edit_distance(l1, l2, d));
        out.line(format!("K raw_score {} {} {} {:?}", l1, l2, d, r.ok()));
    }
}

fn main() {
    std::panic::set_hook(Box::new(|_| {}));
    let args: Vec<String> = std::env::args().skip(1).collect();
    let mut out = Out { sections: vec![], self_mismatches: vec![] };
    if let Err(e) = corpus::validate_words() {
        eprintln!("transcript: corpus validation failed: {}", e);
        std::process::exit(3);
    }
    // a panic that escapes from the library inside a section is a result like any other: it ends that section with a
    // PANIC line (every configuration must agree on it) and is reported by the configuration's self-check
    let sections: [(&str, fn(&mut Out)); 6] = [
        ("generator", section_generator),
        ("parser", section_parser),
        ("conversions", section_conversions),
        ("scores", section_scores),
        ("primitives", section_primitives),
        ("constructors", section_constructors),
    ];
    for (name, f) in sections {
        let r = std::panic::catch_unwind(std::panic::AssertUnwindSafe(|| f(&mut out)));
        if let Err(e) = r {
            let msg = e.downcast_ref::<&str>().map(|s| s.to_string()).or_else(|| e.downcast_ref::<String>().cloned()).unwrap_or_else(|| "panic".into());
            let done = out.sections.last().map(|s| s.1.len()).unwrap_or(0);
            out.line(format!("SECTION PANIC after {} lines", done));
            out.bad(format!("section {} panicked after {} lines: {}", name, done, msg));
        }
    }
    if args.len() == 2 && args[0] == "--dump" {
        for (name, lines) in &out.sections {
            if name == &args[1] {
                for l in lines {
                    println!("{}", l);
                }
            }
        }
        return;
    }
    for (name, lines) in &out.sections {
        let mut h = 0xcbf29ce484222325u64;
        for l in lines {
            h = h64(l.as_bytes(), h);
            h = h64(b"\n", h);
        }
        println!("SECTION {} {} {:016x}", name, lines.len(), h);
    }
    println!("SELF {}", out.self_mismatches.len());
    for m in &out.self_mismatches {
        println!("SELFMISMATCH {}", m);
    }
}
