fn main(){}
