//! Reference models for the ffuzzy verification machinery.
//!
//! Nothing in this crate depends on ffuzzy.  Everything is written from the
//! property statements and from ssdeep 2.14.1's `fuzzy.c`, deliberately
//! non-optimised and with algorithms different from ffuzzy's (no fork, no
//! elimination, no roll mask in the generator; textbook DP for the LCS; naive
//! scan for the common 7-gram; plain left-to-right scanner for the parser).

pub mod ctph;
pub mod text;

pub const B64: &[u8; 64] = b"ABCDEFGHIJKLMNOPQRSTUVWXYZabcdefghijklmnopqrstuvwxyz0123456789+/";
pub const FNV_INIT: u32 = 0x2802_1967;
pub const FNV_PRIME: u32 = 0x0100_0193;
pub const MAX_INPUT_SIZE: u64 = 192u64 << 30;
pub const NUM_LOGS: usize = 31;

pub fn b64_index(c: u8) -> Option<u8> {
    B64.iter().position(|&x| x == c).map(|p| p as u8)
}

pub fn b64_string(v: &[u8]) -> String {
    v.iter().map(|&x| B64[x as usize] as char).collect()
}

/// Rolling hash of (up to) the last seven bytes, oldest first.
/// Fewer than seven bytes are treated as preceded by zero bytes.
pub fn roll(last: &[u8]) -> u32 {
    let n = last.len().min(7);
    let last = &last[last.len() - n..];
    let mut w = [0u8; 7];
    w[7 - n..].copy_from_slice(last);
    let mut h1 = 0u32;
    let mut h2 = 0u32;
    let mut h3 = 0u32;
    for i in 0..7 {
        h1 = h1.wrapping_add(w[i] as u32);
        h2 = h2.wrapping_add((i as u32 + 1).wrapping_mul(w[i] as u32));
        h3 = (h3 << 5) ^ (w[i] as u32);
    }
    h1.wrapping_add(h2).wrapping_add(h3)
}

/// Full 32-bit FNV-1 (ssdeep's initial value) of a byte string.
pub fn fnv32(bytes: &[u8]) -> u32 {
    let mut h = FNV_INIT;
    for &c in bytes {
        h = h.wrapping_mul(FNV_PRIME) ^ (c as u32);
    }
    h
}
pub fn fnv6(bytes: &[u8]) -> u8 {
    (fnv32(bytes) & 63) as u8
}

/// Run collapsing: every run of more than three identical symbols becomes three.
pub fn normalize(v: &[u8]) -> Vec<u8> {
    let mut o: Vec<u8> = Vec::with_capacity(v.len());
    let mut i = 0;
    while i < v.len() {
        let mut j = i;
        while j < v.len() && v[j] == v[i] {
            j += 1;
        }
        let run = j - i;
        for _ in 0..run.min(3) {
            o.push(v[i]);
        }
        i = j;
    }
    o
}

pub fn is_normalized(v: &[u8]) -> bool {
    normalize(v) == v
}

/// Textbook dynamic programming: len(a)+len(b)-2*LCS(a,b).
pub fn lcs_distance(a: &[u8], b: &[u8]) -> u32 {
    let mut prev = vec![0u32; b.len() + 1];
    let mut cur = vec![0u32; b.len() + 1];
    for i in 1..=a.len() {
        cur[0] = 0;
        for j in 1..=b.len() {
            cur[j] = if a[i - 1] == b[j - 1] {
                prev[j - 1] + 1
            } else {
                prev[j].max(cur[j - 1])
            };
        }
        std::mem::swap(&mut prev, &mut cur);
    }
    let lcs = if a.is_empty() { 0 } else { prev[b.len()] };
    (a.len() + b.len()) as u32 - 2 * lcs
}

/// Naive: do `a` and `b` share a contiguous substring of 7 symbols?
pub fn has_common_7gram(a: &[u8], b: &[u8]) -> bool {
    if a.len() < 7 || b.len() < 7 {
        return false;
    }
    for i in 0..=a.len() - 7 {
        for j in 0..=b.len() - 7 {
            if a[i..i + 7] == b[j..j + 7] {
                return true;
            }
        }
    }
    false
}

/// ssdeep's per-block-hash score.  `log` is the *effective* log block size of
/// the two (normalised) strings; it may be 31 for block hash 2 at the largest
/// block size.
pub fn score_strings(a: &[u8], b: &[u8], log: u32) -> u32 {
    if !has_common_7gram(a, b) {
        return 0;
    }
    let d = lcs_distance(a, b);
    let l = (a.len() + b.len()) as u32;
    let mut s = 100 - (100 * ((64 * d) / l)) / 64;
    if log < 4 {
        let cap = (1u32 << log) * (a.len().min(b.len()) as u32);
        if s > cap {
            s = cap;
        }
    }
    s
}

/// ssdeep 2.14.1 `fuzzy_compare` on two hashes given as (log, bh1, bh2), raw or
/// normalised (normalisation is applied here).
pub fn score(la: u8, a1: &[u8], a2: &[u8], lb: u8, b1: &[u8], b2: &[u8]) -> u32 {
    let (a1, a2, b1, b2) = (normalize(a1), normalize(a2), normalize(b1), normalize(b2));
    let (la, lb) = (la as i32, lb as i32);
    if (la - lb).abs() > 1 {
        return 0;
    }
    if la == lb {
        if a1 == b1 && a2 == b2 {
            return 100;
        }
        score_strings(&a1, &b1, la as u32).max(score_strings(&a2, &b2, la as u32 + 1))
    } else if la + 1 == lb {
        // a's block size is half of b's: a.bh2 against b.bh1
        score_strings(&a2, &b1, lb as u32)
    } else {
        score_strings(&a1, &b2, la as u32)
    }
}

/// Documented order: block size, then block hash 1 symbol-wise lexicographic
/// (a proper prefix first), then block hash 2 likewise.
pub fn order(la: u8, a1: &[u8], a2: &[u8], lb: u8, b1: &[u8], b2: &[u8]) -> std::cmp::Ordering {
    la.cmp(&lb).then_with(|| a1.cmp(b1)).then_with(|| a2.cmp(b2))
}

/// Numeric window: injective base-64 encoding of a 7-symbol slice.
pub fn numeric_window(w: &[u8]) -> u64 {
    assert_eq!(w.len(), 7);
    let mut v = 0u64;
    for (i, &s) in w.iter().enumerate() {
        v += (s as u64) * 64u64.pow(6 - i as u32);
    }
    v
}

/// Validity of a plain hash given through its public accessors.
pub fn plain_valid(
    log: u8,
    bh1_arr: &[u8],
    bh1_len: usize,
    bh2_arr: &[u8],
    bh2_len: usize,
    norm: bool,
) -> bool {
    let part = |arr: &[u8], len: usize| -> bool {
        if len > arr.len() {
            return false;
        }
        if arr[..len].iter().any(|&x| x >= 64) {
            return false;
        }
        if arr[len..].iter().any(|&x| x != 0) {
            return false;
        }
        if norm && !is_normalized(&arr[..len]) {
            return false;
        }
        true
    };
    (log as usize) < NUM_LOGS && part(bh1_arr, bh1_len) && part(bh2_arr, bh2_len)
}

#[cfg(test)]
mod tests {
    use super::*;
    #[test]
    fn basics() {
        assert_eq!(normalize(&[1, 1, 1, 1, 2, 2, 2, 2, 2, 3]), vec![1, 1, 1, 2, 2, 2, 3]);
        assert_eq!(lcs_distance(b"abc", b"abc"), 0);
        assert_eq!(lcs_distance(b"abc", b""), 3);
        assert_eq!(lcs_distance(b"abcd", b"abed"), 2);
        assert!(has_common_7gram(b"xxabcdefgyy", b"abcdefg"));
        assert!(!has_common_7gram(b"xxabcdefyy", b"abcdefg"));
    }
}
