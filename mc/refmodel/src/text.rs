//! Text form: formatter and a plain left-to-right scanner for the grammar
//! `<block size>:<base64*>:<base64*>[,<anything>]`.

use crate::{b64_index, b64_string, normalize};

pub fn format(log: u8, bh1: &[u8], bh2: &[u8]) -> String {
    format!("{}:{}:{}", 3u64 << log, b64_string(bh1), b64_string(bh2))
}

#[derive(Clone, Copy, Debug, PartialEq, Eq, Hash, PartialOrd, Ord)]
pub enum Origin {
    BlockSize,
    BlockHash1,
    BlockHash2,
}

#[derive(Clone, Copy, Debug, PartialEq, Eq, Hash, PartialOrd, Ord)]
pub enum Kind {
    BlockSizeIsEmpty,
    BlockSizeStartsWithZero,
    BlockSizeIsInvalid,
    BlockSizeIsTooLarge,
    BlockHashIsTooLong,
    UnexpectedCharacter,
    UnexpectedEndOfString,
}

/// Accepted text: decoded log, **raw** symbols of both block hashes and the
/// end index (first comma after block hash 2, or the text length).
#[derive(Clone, Debug, PartialEq, Eq)]
pub struct Parsed {
    pub log: u8,
    pub bh1: Vec<u8>,
    pub bh2: Vec<u8>,
    pub end: usize,
}

/// Rejected text: the offending part and every error condition that part
/// exhibits (a field can be both too long and wrongly terminated; which one a
/// parser notices first is not part of the property).
#[derive(Clone, Debug, PartialEq, Eq)]
pub struct Rejected {
    pub origin: Origin,
    pub kinds: Vec<Kind>,
}

#[derive(Clone, Copy, Debug)]
pub struct Rule {
    pub cap1: usize,
    pub cap2: usize,
    /// count the block hash length after run collapsing (normalising types
    /// under the default parser); otherwise on the raw text
    pub count_normalized: bool,
    /// strict parser: that scanner stops after `cap` symbols and cannot tell
    /// an invalid byte from one symbol too many
    pub strict: bool,
}

fn valid_block_size(v: u64) -> Option<u8> {
    (0..31u8).find(|&n| v == (3u64 << n))
}

pub fn parse(t: &[u8], rule: Rule) -> Result<Parsed, Rejected> {
    use Kind::*;
    let rej = |origin, kinds: Vec<Kind>| Err(Rejected { origin, kinds });
    // block size: canonical decimal, no leading zero, one of the 31 values
    let mut i = 0;
    let mut v: u64 = 0;
    let mut over = false;
    let log;
    loop {
        if i >= t.len() {
            return rej(Origin::BlockSize, vec![UnexpectedEndOfString]);
        }
        let c = t[i];
        if c.is_ascii_digit() {
            if !over {
                v = v * 10 + (c - b'0') as u64;
                if v > u32::MAX as u64 {
                    over = true;
                } else if v == 0 {
                    return rej(Origin::BlockSize, vec![BlockSizeStartsWithZero]);
                }
            }
            i += 1;
            continue;
        }
        if c == b':' {
            if i == 0 {
                return rej(Origin::BlockSize, vec![BlockSizeIsEmpty]);
            }
            if over {
                return rej(Origin::BlockSize, vec![BlockSizeIsTooLarge]);
            }
            match valid_block_size(v) {
                Some(l) => log = l,
                None => return rej(Origin::BlockSize, vec![BlockSizeIsInvalid]),
            }
            i += 1;
            break;
        }
        return rej(Origin::BlockSize, vec![UnexpectedCharacter]);
    }
    let field = |i: &mut usize, cap: usize, first: bool| -> Result<Vec<u8>, Vec<Kind>> {
        let mut raw = vec![];
        while *i < t.len() {
            if let Some(x) = b64_index(t[*i]) {
                raw.push(x);
                *i += 1;
            } else {
                break;
            }
        }
        let cnt = if rule.count_normalized { normalize(&raw).len() } else { raw.len() };
        let mut kinds = vec![];
        if cnt > cap {
            kinds.push(BlockHashIsTooLong);
        }
        let next = if *i < t.len() { Some(t[*i]) } else { None };
        match (first, next) {
            (true, Some(b':')) => {}
            (true, None) => kinds.push(UnexpectedEndOfString),
            (true, _) => kinds.push(UnexpectedCharacter),
            (false, None) | (false, Some(b',')) => {}
            (false, _) => kinds.push(UnexpectedCharacter),
        }
        if rule.strict && cnt == cap && !kinds.is_empty() && next.is_some() {
            kinds.push(BlockHashIsTooLong);
        }
        if kinds.is_empty() {
            Ok(raw)
        } else {
            Err(kinds)
        }
    };
    let bh1 = match field(&mut i, rule.cap1, true) {
        Ok(v) => v,
        Err(k) => return rej(Origin::BlockHash1, k),
    };
    i += 1;
    let bh2 = match field(&mut i, rule.cap2, false) {
        Ok(v) => v,
        Err(k) => return rej(Origin::BlockHash2, k),
    };
    Ok(Parsed { log, bh1, bh2, end: i })
}
