//! Declarative CTPH reference (ssdeep 2.14.1 semantics).
//!
//! All 31 block-size levels are run independently from the first byte: there
//! is no fork, no elimination, no roll mask, no size hint.  That those
//! optimisations never change the result is exactly what the checks establish.

use crate::{roll, FNV_INIT, FNV_PRIME, MAX_INPUT_SIZE, NUM_LOGS};

#[derive(Clone, Debug, PartialEq, Eq, Hash)]
struct Level {
    dindex: usize,
    digest: [Option<u8>; 64],
    h: u32,
    halfh: u32,
    halfdigest: Option<u8>,
    triggered: bool,
}

#[derive(Clone, Debug, PartialEq, Eq, Hash)]
pub struct Ctph {
    size: u64,
    win: [u8; 7],
    lv: Vec<Level>,
    all: u32,
}

/// `h * P^n` by fast exponentiation (u32 wrapping).
pub fn fnv_zero_steps(mut h: u32, mut n: u64) -> u32 {
    let mut p = FNV_PRIME;
    while n > 0 {
        if n & 1 == 1 {
            h = h.wrapping_mul(p);
        }
        p = p.wrapping_mul(p);
        n >>= 1;
    }
    h
}

/// Result of the reference: log block size, block hash 1, truncated block
/// hash 2, non-truncated block hash 2 (symbol values 0..63).
#[derive(Clone, Debug, PartialEq, Eq, Hash)]
pub struct Digest {
    pub log: u8,
    pub bh1: Vec<u8>,
    pub bh2_trunc: Vec<u8>,
    pub bh2_long: Vec<u8>,
}

impl Digest {
    pub fn text_trunc(&self) -> String {
        crate::text::format(self.log, &self.bh1, &self.bh2_trunc)
    }
    pub fn text_long(&self) -> String {
        crate::text::format(self.log, &self.bh1, &self.bh2_long)
    }
}

#[derive(Clone, Copy, Debug, PartialEq, Eq)]
pub enum CtphError {
    TooLarge,
}

impl Ctph {
    /// State after `zero_prefix` zero bytes (closed form).
    pub fn new(zero_prefix: u64) -> Self {
        let h = fnv_zero_steps(FNV_INIT, zero_prefix);
        Ctph {
            size: zero_prefix,
            win: [0; 7],
            lv: (0..NUM_LOGS)
                .map(|_| Level {
                    dindex: 0,
                    digest: [None; 64],
                    h,
                    halfh: h,
                    halfdigest: None,
                    triggered: false,
                })
                .collect(),
            all: h,
        }
    }

    pub fn size(&self) -> u64 {
        self.size
    }

    pub fn roll_value(&self) -> u32 {
        roll(&self.win)
    }

    /// `n` more zero bytes, only valid while the window is all zero
    /// (closed form; used to reach multi-GiB sizes).
    pub fn skip_zeros(&mut self, n: u64) {
        assert!(self.win == [0; 7]);
        self.size = self.size.saturating_add(n);
        self.all = fnv_zero_steps(self.all, n);
        for l in self.lv.iter_mut() {
            l.h = fnv_zero_steps(l.h, n);
            l.halfh = fnv_zero_steps(l.halfh, n);
        }
    }

    pub fn feed(&mut self, c: u8) {
        self.size = self.size.saturating_add(1);
        self.win.rotate_left(1);
        self.win[6] = c;
        self.all = self.all.wrapping_mul(FNV_PRIME) ^ (c as u32);
        let horg = roll(&self.win).wrapping_add(1);
        for n in 0..NUM_LOGS {
            let l = &mut self.lv[n];
            l.h = l.h.wrapping_mul(FNV_PRIME) ^ (c as u32);
            l.halfh = l.halfh.wrapping_mul(FNV_PRIME) ^ (c as u32);
            if horg != 0 && (horg as u64) % (3u64 << n) == 0 {
                l.triggered = true;
                l.digest[l.dindex] = Some((l.h & 63) as u8);
                l.halfdigest = Some((l.halfh & 63) as u8);
                if l.dindex < 63 {
                    l.dindex += 1;
                    l.h = FNV_INIT;
                    if l.dindex < 32 {
                        l.halfdigest = None;
                        l.halfh = FNV_INIT;
                    }
                }
            }
        }
    }

    pub fn feed_all(&mut self, bytes: &[u8]) {
        for &c in bytes {
            self.feed(c);
        }
    }

    pub fn digest(&self) -> Result<Digest, CtphError> {
        if self.size > MAX_INPUT_SIZE {
            return Err(CtphError::TooLarge);
        }
        let mut bi0 = 0usize;
        while (192u64 << bi0) < self.size {
            bi0 += 1;
        }
        let k = self.lv.iter().take_while(|l| l.triggered).count();
        let bhend = (k + 1).min(NUM_LOGS);
        let mut bi = bi0.min(bhend - 1);
        while bi > 0 && self.lv[bi].dindex < 32 {
            bi -= 1;
        }
        let r = roll(&self.win);
        let tail = |l: &Level, hash: u32| -> Vec<u8> {
            let mut s: Vec<u8> = l.digest[..l.dindex].iter().map(|x| x.unwrap()).collect();
            if r != 0 {
                s.push((hash & 63) as u8);
            } else if let Some(d) = l.digest[l.dindex] {
                s.push(d);
            }
            s
        };
        let l = &self.lv[bi];
        let bh1 = tail(l, l.h);
        let (mut t, mut nt) = (Vec::new(), Vec::new());
        if bi < bhend - 1 {
            let l = &self.lv[bi + 1];
            nt = tail(l, l.h);
            let i = l.dindex.min(31);
            t = l.digest[..i].iter().map(|x| x.unwrap()).collect();
            if r != 0 {
                t.push((l.halfh & 63) as u8);
            } else if let Some(d) = l.halfdigest {
                t.push(d);
            }
        } else if r != 0 {
            let c = if bi == 0 { (self.lv[0].h & 63) as u8 } else { (self.all & 63) as u8 };
            t.push(c);
            nt.push(c);
        }
        Ok(Digest { log: bi as u8, bh1, bh2_trunc: t, bh2_long: nt })
    }
}

pub fn ctph(zero_prefix: u64, bytes: &[u8]) -> Result<Digest, CtphError> {
    let mut r = Ctph::new(zero_prefix);
    r.feed_all(bytes);
    r.digest()
}
