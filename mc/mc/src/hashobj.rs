//! helpers around hash objects (filled in later)
