//! Uniform view of the six hash types for the enumeration checks.

use ssdeep::{
    DualFuzzyHash, FuzzyHash, FuzzyHashOperationError, LongDualFuzzyHash, LongFuzzyHash,
    LongRawFuzzyHash, ParseError, RawFuzzyHash,
};
use std::fmt::Debug;
use std::hash::{Hash, Hasher};

/// The four plain variants.
pub trait Plain: Sized + Copy + Debug + Eq + Ord + Hash + std::fmt::Display + Send + Sync {
    const NAME: &'static str;
    const CAP2: usize;
    const NORM: bool;
    const MAX_LEN_IN_STR: usize;
    fn parse_bytes(b: &[u8]) -> Result<Self, ParseError>;
    fn parse_bytes_idx(b: &[u8], i: &mut usize) -> Result<Self, ParseError>;
    fn parse_str(s: &str) -> Result<Self, ParseError>;
    fn empty() -> Self;
    fn near_raw(log: u8, bh1: &[u8], bh2: &[u8]) -> Self;
    fn from_internals(bs: u32, bh1: &[u8], bh2: &[u8]) -> Self;
    fn log(&self) -> u8;
    fn block_size(&self) -> u32;
    fn bh1(&self) -> &[u8];
    fn bh2(&self) -> &[u8];
    fn bh1_arr(&self) -> &[u8];
    fn bh2_arr(&self) -> &[u8];
    fn bh1_len(&self) -> usize;
    fn bh2_len(&self) -> usize;
    fn valid(&self) -> bool;
    fn full_eq(&self, o: &Self) -> bool;
    fn string(&self) -> String;
    fn into_string(self) -> String;
    fn store(&self, buf: &mut [u8]) -> Result<usize, FuzzyHashOperationError>;
    fn len_in_str(&self) -> usize;
    fn is_normalized(&self) -> bool;
    fn normalize_in_place(&mut self);
    fn clone_normalized(&self) -> Self;
    /// validity computed from public accessors only (reference predicate)
    fn ref_valid(&self) -> bool {
        refmodel::plain_valid(self.log(), self.bh1_arr(), self.bh1_len(), self.bh2_arr(), self.bh2_len(), Self::NORM)
    }
}

macro_rules! impl_plain {
    ($ty:ty, $name:expr, $cap2:expr, $norm:expr) => {
        impl Plain for $ty {
            const NAME: &'static str = $name;
            const CAP2: usize = $cap2;
            const NORM: bool = $norm;
            const MAX_LEN_IN_STR: usize = <$ty>::MAX_LEN_IN_STR;
            fn parse_bytes(b: &[u8]) -> Result<Self, ParseError> {
                <$ty>::from_bytes(b)
            }
            fn parse_bytes_idx(b: &[u8], i: &mut usize) -> Result<Self, ParseError> {
                <$ty>::from_bytes_with_last_index(b, i)
            }
            fn parse_str(s: &str) -> Result<Self, ParseError> {
                s.parse::<$ty>()
            }
            fn empty() -> Self {
                <$ty>::new()
            }
            fn near_raw(log: u8, bh1: &[u8], bh2: &[u8]) -> Self {
                <$ty>::new_from_internals_near_raw(log, bh1, bh2)
            }
            fn from_internals(bs: u32, bh1: &[u8], bh2: &[u8]) -> Self {
                <$ty>::new_from_internals(bs, bh1, bh2)
            }
            fn log(&self) -> u8 {
                self.log_block_size()
            }
            fn block_size(&self) -> u32 {
                <$ty>::block_size(self)
            }
            fn bh1(&self) -> &[u8] {
                self.block_hash_1()
            }
            fn bh2(&self) -> &[u8] {
                self.block_hash_2()
            }
            fn bh1_arr(&self) -> &[u8] {
                &self.block_hash_1_as_array()[..]
            }
            fn bh2_arr(&self) -> &[u8] {
                &self.block_hash_2_as_array()[..]
            }
            fn bh1_len(&self) -> usize {
                self.block_hash_1_len()
            }
            fn bh2_len(&self) -> usize {
                self.block_hash_2_len()
            }
            fn valid(&self) -> bool {
                self.is_valid()
            }
            fn full_eq(&self, o: &Self) -> bool {
                <$ty>::full_eq(self, o)
            }
            fn string(&self) -> String {
                <$ty>::to_string(self)
            }
            fn into_string(self) -> String {
                String::from(self)
            }
            fn store(&self, buf: &mut [u8]) -> Result<usize, FuzzyHashOperationError> {
                self.store_into_bytes(buf)
            }
            fn len_in_str(&self) -> usize {
                <$ty>::len_in_str(self)
            }
            fn is_normalized(&self) -> bool {
                <$ty>::is_normalized(self)
            }
            fn normalize_in_place(&mut self) {
                <$ty>::normalize_in_place(self)
            }
            fn clone_normalized(&self) -> Self {
                <$ty>::clone_normalized(self)
            }
        }
    };
}
impl_plain!(RawFuzzyHash, "RawFuzzyHash", 32, false);
impl_plain!(LongRawFuzzyHash, "LongRawFuzzyHash", 64, false);
impl_plain!(FuzzyHash, "FuzzyHash", 32, true);
impl_plain!(LongFuzzyHash, "LongFuzzyHash", 64, true);

/// The two dual variants.
pub trait Dual: Sized + Copy + Debug + Eq + Ord + Hash + std::fmt::Display + Send + Sync {
    type Raw: Plain;
    type Norm: Plain;
    const NAME: &'static str;
    const CAP2: usize;
    fn parse_bytes(b: &[u8]) -> Result<Self, ParseError>;
    fn parse_bytes_idx(b: &[u8], i: &mut usize) -> Result<Self, ParseError>;
    fn parse_str(s: &str) -> Result<Self, ParseError>;
    fn empty() -> Self;
    fn from_raw(r: &Self::Raw) -> Self;
    fn init_from_raw(&mut self, r: &Self::Raw);
    fn from_norm(n: &Self::Norm) -> Self;
    fn near_raw(log: u8, bh1: &[u8], bh2: &[u8]) -> Self;
    fn from_internals(bs: u32, bh1: &[u8], bh2: &[u8]) -> Self;
    fn to_raw(&self) -> Self::Raw;
    fn into_mut_raw(&self, dst: &mut Self::Raw);
    fn to_raw_string(&self) -> String;
    fn to_norm_string(&self) -> String;
    fn as_norm(&self) -> &Self::Norm;
    fn to_norm(&self) -> Self::Norm;
    fn valid(&self) -> bool;
    fn is_normalized(&self) -> bool;
    fn normalize_in_place(&mut self);
    fn log(&self) -> u8;
}

macro_rules! impl_dual {
    ($ty:ty, $raw:ty, $norm:ty, $name:expr, $cap2:expr) => {
        impl Dual for $ty {
            type Raw = $raw;
            type Norm = $norm;
            const NAME: &'static str = $name;
            const CAP2: usize = $cap2;
            fn parse_bytes(b: &[u8]) -> Result<Self, ParseError> {
                <$ty>::from_bytes(b)
            }
            fn parse_bytes_idx(b: &[u8], i: &mut usize) -> Result<Self, ParseError> {
                <$ty>::from_bytes_with_last_index(b, i)
            }
            fn parse_str(s: &str) -> Result<Self, ParseError> {
                s.parse::<$ty>()
            }
            fn empty() -> Self {
                <$ty>::new()
            }
            fn from_raw(r: &$raw) -> Self {
                <$ty>::from_raw_form(r)
            }
            fn init_from_raw(&mut self, r: &$raw) {
                self.init_from_raw_form(r)
            }
            fn from_norm(n: &$norm) -> Self {
                <$ty>::from_normalized(n)
            }
            fn near_raw(log: u8, bh1: &[u8], bh2: &[u8]) -> Self {
                <$ty>::new_from_internals_near_raw(log, bh1, bh2)
            }
            fn from_internals(bs: u32, bh1: &[u8], bh2: &[u8]) -> Self {
                <$ty>::new_from_internals(bs, bh1, bh2)
            }
            fn to_raw(&self) -> $raw {
                self.to_raw_form()
            }
            fn into_mut_raw(&self, dst: &mut $raw) {
                self.into_mut_raw_form(dst)
            }
            fn to_raw_string(&self) -> String {
                self.to_raw_form_string()
            }
            fn to_norm_string(&self) -> String {
                self.to_normalized_string()
            }
            fn as_norm(&self) -> &$norm {
                self.as_normalized()
            }
            fn to_norm(&self) -> $norm {
                self.to_normalized()
            }
            fn valid(&self) -> bool {
                self.is_valid()
            }
            fn is_normalized(&self) -> bool {
                <$ty>::is_normalized(self)
            }
            fn normalize_in_place(&mut self) {
                <$ty>::normalize_in_place(self)
            }
            fn log(&self) -> u8 {
                self.log_block_size()
            }
        }
    };
}
impl_dual!(DualFuzzyHash, RawFuzzyHash, FuzzyHash, "DualFuzzyHash", 32);
impl_dual!(LongDualFuzzyHash, LongRawFuzzyHash, LongFuzzyHash, "LongDualFuzzyHash", 64);

/// Hasher that records exactly what is written to it (deterministic; no RandomState).
#[derive(Default)]
pub struct RecordingHasher(pub Vec<u8>);
impl Hasher for RecordingHasher {
    fn finish(&self) -> u64 {
        crate::common::h64(&self.0)
    }
    fn write(&mut self, bytes: &[u8]) {
        self.0.extend_from_slice(bytes);
    }
}
pub fn hash_stream<T: Hash>(v: &T) -> Vec<u8> {
    let mut h = RecordingHasher::default();
    v.hash(&mut h);
    h.0
}
