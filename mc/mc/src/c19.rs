//! C19 — the exposed hash primitives equal their mathematical definitions.
//!
//! Explicit-state search over the *real* `RollingHash` / `PartialFNVHash`
//! objects.  The reachable spaces close, so every history over the alphabet
//! (of any length) is covered.

use crate::common::*;
use crate::explore;
use serde_json::{json, Value};
use ssdeep::internal_hashes::{PartialFNVHash, RollingHash};
use stateright::{Model, Property};
use std::hash::{Hash, Hasher};
use std::sync::atomic::{AtomicU64, Ordering};

static TRANSITIONS: AtomicU64 = AtomicU64::new(0);

// ------------------------------------------------------------------ rolling hash

#[derive(Clone, Debug)]
pub struct RState {
    r: RollingHash,
    last7: [u8; 7],
    /// set when the update forms disagreed on the transition into this state
    forms_disagree: bool,
}
impl PartialEq for RState {
    fn eq(&self, o: &Self) -> bool {
        self.r == o.r && self.last7 == o.last7 && self.forms_disagree == o.forms_disagree
    }
}
impl Eq for RState {}
impl Hash for RState {
    fn hash<H: Hasher>(&self, h: &mut H) {
        format!("{:?}", self.r).hash(h);
        self.last7.hash(h);
        self.forms_disagree.hash(h);
    }
}

fn roll_step_all_forms(r0: &RollingHash, c: u8) -> (RollingHash, bool) {
    let mut r = *r0;
    r.update_by_byte(c);
    let mut r2 = *r0;
    r2.update(&[c]);
    let mut r3 = *r0;
    r3.update_by_iter([c].iter().copied());
    let mut r4 = *r0;
    r4 += c;
    let mut r5 = *r0;
    r5 += &[c][..];
    let mut r6 = *r0;
    r6 += &[c; 1];
    let agree = r == r2 && r == r3 && r == r4 && r == r5 && r == r6;
    (r, !agree)
}

pub struct RollModel {
    sigma: Vec<u8>,
}
impl Model for RollModel {
    type State = RState;
    type Action = u8;
    fn init_states(&self) -> Vec<RState> {
        vec![RState { r: RollingHash::new(), last7: [0; 7], forms_disagree: false }]
    }
    fn actions(&self, _s: &RState, a: &mut Vec<u8>) {
        a.extend(self.sigma.iter().copied());
    }
    fn next_state(&self, s: &RState, c: u8) -> Option<RState> {
        TRANSITIONS.fetch_add(1, Ordering::Relaxed);
        // a panic inside the library is a violation, not a crash of the explorer
        let (r, dis) = match guarded(|| roll_step_all_forms(&s.r, c)) {
            Ok(x) => x,
            Err(_) => (s.r.clone(), true),
        };
        let mut l = s.last7;
        l.rotate_left(1);
        l[6] = c;
        Some(RState { r, last7: l, forms_disagree: dis })
    }
    fn properties(&self) -> Vec<Property<Self>> {
        vec![
            Property::always("roll-value-is-definition-of-last-7-bytes", |_m, s: &RState| {
                s.r.value() == refmodel::roll(&s.last7)
            }),
            Property::always("roll-update-forms-agree", |_m, s: &RState| !s.forms_disagree),
        ]
    }
}

fn roll_replay(path: &[u8]) -> Result<(), String> {
    guarded(|| roll_replay_inner(path)).unwrap_or_else(|p| Err(format!("panic in the rolling hash after {}: {}", hex(path), p)))
}

fn roll_replay_inner(path: &[u8]) -> Result<(), String> {
    let mut r = RollingHash::new();
    for (i, &c) in path.iter().enumerate() {
        let (n, dis) = roll_step_all_forms(&r, c);
        if dis {
            return Err(format!("update forms disagree at byte {} of {}", i, hex(path)));
        }
        r = n;
        let exp = refmodel::roll(&path[..=i]);
        if r.value() != exp {
            return Err(format!(
                "RollingHash value {:#x} != definition {:#x} after {}",
                r.value(),
                exp,
                hex(&path[..=i])
            ));
        }
    }
    // slice form over the whole path at once
    let mut w = RollingHash::new();
    w.update(path);
    if w != r {
        return Err(format!("whole-slice update differs from byte-wise after {}", hex(path)));
    }
    // iterator forms whose size hints are inexact (lower bound 0, upper bound an over-estimate)
    let mut it1 = RollingHash::new();
    it1.update_by_iter(path.iter().copied().filter(|_| true));
    let doubled: Vec<(bool, u8)> = path.iter().flat_map(|&b| [(true, b), (false, b ^ 0x5a)]).collect();
    let mut it2 = RollingHash::new();
    it2.update_by_iter(doubled.iter().filter(|x| x.0).map(|x| x.1));
    if it1 != r || it2 != r {
        return Err(format!("update_by_iter with an inexact size hint differs from byte-wise after {}", hex(path)));
    }
    // an iterator that is not fused (the bytes, `None`, then junk), passed by `&mut`: the sequence ends at the first `None`
    let mut nf = crate::gen_util::NotFused::new(path);
    let mut it3 = RollingHash::new();
    it3.update_by_iter(&mut nf);
    if it3 != r {
        return Err(format!("update_by_iter(&mut not-fused iterator) differs from byte-wise after {} (polled {} times after the end)", hex(path), nf.polled_after_end));
    }
    // += &[u8; N] for N = 2..=16 at the end of the path, after a byte-wise prefix
    macro_rules! arr_tail {
        ($($n:expr),*) => {$(
            if path.len() >= $n {
                let cut = path.len() - $n;
                let mut a = RollingHash::new();
                for &c in &path[..cut] {
                    a.update_by_byte(c);
                }
                let tail: [u8; $n] = path[cut..].try_into().unwrap();
                a += &tail;
                if a != r {
                    return Err(format!("+= &[u8; {}] differs from byte-wise after {}", $n, hex(path)));
                }
            }
        )*};
    }
    arr_tail!(2, 3, 6, 7, 8, 9, 13, 14, 15, 16);
    // split calls: a prefix by one form, the rest by another (state carried across bulk calls)
    for cut in [1usize, 2, 3, 6, 7, 8, 9] {
        if cut < path.len() {
            let mut s1 = RollingHash::new();
            s1.update(&path[..cut]);
            s1.update(&path[cut..]);
            let mut s2 = RollingHash::new();
            s2.update_by_iter(path[..cut].iter().copied());
            s2 += &path[cut..];
            // iterator first, then single bytes (the object must be left consistent by bulk calls)
            let mut s3 = RollingHash::new();
            s3.update_by_iter(path[..cut].iter().copied().filter(|_| true));
            for &c in &path[cut..] {
                s3.update_by_byte(c);
            }
            let mut s4 = RollingHash::new();
            s4.update(&path[..cut]);
            for &c in &path[cut..] {
                s4 += c;
            }
            if s3 != r || s4 != r {
                return Err(format!("bulk update followed by single bytes (cut {}) differs from byte-wise after {}", cut, hex(path)));
            }
            if s1 != r || s2 != r {
                return Err(format!("split bulk updates (cut {}) differ from byte-wise after {}", cut, hex(path)));
            }
        }
    }
    Ok(())
}

// ------------------------------------------------------------------ partial FNV

#[derive(Clone, Debug)]
pub struct FState {
    h: PartialFNVHash,
    /// a genuine byte path leading to this state (witness; not part of the key)
    witness: Vec<u8>,
    bad: Option<String>,
}
impl PartialEq for FState {
    fn eq(&self, o: &Self) -> bool {
        self.h == o.h && self.bad.is_some() == o.bad.is_some()
    }
}
impl Eq for FState {}
impl Hash for FState {
    fn hash<H: Hasher>(&self, st: &mut H) {
        format!("{:?}", self.h).hash(st);
        self.bad.is_some().hash(st);
    }
}

fn fnv_step_all_forms(h0: &PartialFNVHash, c: u8) -> (PartialFNVHash, bool) {
    let mut h = *h0;
    h.update_by_byte(c);
    let mut h2 = *h0;
    h2.update(&[c]);
    let mut h3 = *h0;
    h3.update_by_iter([c].iter().copied());
    let mut h4 = *h0;
    h4 += c;
    let mut h5 = *h0;
    h5 += &[c][..];
    let mut h6 = *h0;
    h6 += &[c; 1];
    let agree = h == h2 && h == h3 && h == h4 && h == h5 && h == h6;
    (h, !agree)
}

pub struct FnvModel;
impl Model for FnvModel {
    type State = FState;
    type Action = u8;
    fn init_states(&self) -> Vec<FState> {
        vec![FState { h: PartialFNVHash::new(), witness: vec![], bad: None }]
    }
    fn actions(&self, _s: &FState, a: &mut Vec<u8>) {
        a.extend(0..=255u8);
    }
    fn next_state(&self, s: &FState, c: u8) -> Option<FState> {
        TRANSITIONS.fetch_add(1, Ordering::Relaxed);
        let (h, dis) = match guarded(|| fnv_step_all_forms(&s.h, c)) {
            Ok(x) => x,
            Err(_) => (s.h.clone(), true),
        };
        let mut w = s.witness.clone();
        w.push(c);
        let mut bad = None;
        if dis {
            bad = Some("forms".to_string());
        } else if h.value() != refmodel::fnv6(&w) {
            bad = Some("value".to_string());
        }
        Some(FState { h, witness: w, bad })
    }
    fn properties(&self) -> Vec<Property<Self>> {
        vec![Property::always("fnv-value-is-low-6-bits-of-fnv1-and-forms-agree", |_m, s: &FState| {
            s.bad.is_none() && s.h.value() == refmodel::fnv6(&s.witness)
        })]
    }
}

fn fnv_replay(path: &[u8]) -> Result<(), String> {
    guarded(|| fnv_replay_inner(path)).unwrap_or_else(|p| Err(format!("panic in the partial FNV hash after {}: {}", hex(path), p)))
}

fn fnv_replay_inner(path: &[u8]) -> Result<(), String> {
    let mut h = PartialFNVHash::new();
    if h.value() != refmodel::fnv6(&[]) {
        return Err("initial value".into());
    }
    for (i, &c) in path.iter().enumerate() {
        let (n, dis) = fnv_step_all_forms(&h, c);
        if dis {
            return Err(format!("update forms disagree at byte {} of {}", i, hex(path)));
        }
        h = n;
        let exp = refmodel::fnv6(&path[..=i]);
        if h.value() != exp {
            return Err(format!("PartialFNVHash value {} != fnv6 {} after {}", h.value(), exp, hex(&path[..=i])));
        }
    }
    let mut w = PartialFNVHash::new();
    w.update(path);
    if w.value() != h.value() {
        return Err(format!("whole-slice update differs from byte-wise after {}", hex(path)));
    }
    let mut it1 = PartialFNVHash::new();
    it1.update_by_iter(path.iter().copied().filter(|_| true));
    let doubled: Vec<(bool, u8)> = path.iter().flat_map(|&b| [(true, b), (false, b ^ 0x5a)]).collect();
    let mut it2 = PartialFNVHash::new();
    it2.update_by_iter(doubled.iter().filter(|x| x.0).map(|x| x.1));
    if it1.value() != h.value() || it2.value() != h.value() {
        return Err(format!("update_by_iter with an inexact size hint differs from byte-wise after {}", hex(path)));
    }
    let mut nf = crate::gen_util::NotFused::new(path);
    let mut it3 = PartialFNVHash::new();
    it3.update_by_iter(&mut nf);
    if it3.value() != h.value() {
        return Err(format!("update_by_iter(&mut not-fused iterator) differs from byte-wise after {} (polled {} times after the end)", hex(path), nf.polled_after_end));
    }
    Ok(())
}

// ------------------------------------------------------------------ driver

fn case(kind: &str, path: &[u8]) -> Value {
    json!({"kind": kind, "path": hex(path)})
}

pub fn replay(c: &Value) -> Result<(), String> {
    let path = unhex(c["path"].as_str().ok_or("path")?);
    match c["kind"].as_str() {
        Some("roll") => roll_replay(&path),
        Some("fnv") => fnv_replay(&path),
        _ => Err("bad case".into()),
    }
}

pub fn run(ctx: &Ctx) -> Report {
    let mut rep = Report::new("model_checking");
    let mut states = 0u64;
    let mut transitions = 0u64;
    let mut traces = 0u64;
    let mut samples: Vec<Value> = vec![];
    let mut exhaustive = true;

    // ---- FNV: all 256 bytes from every reachable state
    {
        TRANSITIONS.store(0, Ordering::Relaxed);
        let sr = explore::run_stateright(FnvModel, 16);
        let sr_trans = TRANSITIONS.load(Ordering::Relaxed);
        let b = explore::bfs(&FnvModel, 1 << 20, 64);
        for (name, path) in &sr.discoveries {
            let e = fnv_replay(path).err().unwrap_or_else(|| name.clone());
            rep.violation(Violation {
                signature: format!("fnv {}", name),
                what: e,
                case: case("fnv", path),
            });
        }
        if let Some((name, path)) = &b.violation {
            if sr.discoveries.is_empty() {
                rep.violation(Violation {
                    signature: format!("fnv {}", name),
                    what: fnv_replay(path).err().unwrap_or_else(|| name.clone()),
                    case: case("fnv", path),
                });
            }
        }
        if b.violation.is_none() && sr.discoveries.is_empty() && sr.unique != b.states {
            eprintln!("mc: explorers disagree on the FNV state count: {} vs {}", sr.unique, b.states);
            std::process::exit(5);
        }
        // re-execute recorded paths from scratch on fresh objects
        for p in &b.sample_paths {
            if let Err(e) = fnv_replay(p) {
                rep.violation(Violation { signature: "fnv trace".into(), what: e, case: case("fnv", p) });
            }
            traces += 1;
        }
        states += b.states;
        transitions += b.transitions;
        rep.set(
            "fnv_space",
            json!({"alphabet": "all 256 bytes", "states": b.states, "transitions": b.transitions, "bfs_depth": b.depth,
                   "stateright_unique": sr.unique, "stateright_generated": sr.generated, "stateright_next_state_calls": sr_trans,
                   "closed": !b.capped}),
        );
        if let Some(p) = b.sample_paths.first() {
            samples.push(json!({"fnv_path": hex(p)}));
        }
        // direct comparison: all strings <= 2 bytes, and <= L over a 7-byte alphabet
        let alpha = [0x00u8, 0x01, 0x3f, 0x40, 0x7f, 0x80, 0xff];
        let maxl = ctx.tier.pick(7usize, 9);
        let acc = par_shards(256, |b0, acc| {
            for b1 in 0..=256usize {
                let mut s = vec![b0 as u8];
                if b1 < 256 {
                    s.push(b1 as u8);
                }
                acc.evaluations += 1;
                acc.nontrivial += 1;
                if let Err(e) = fnv_replay(&s) {
                    acc.violation("fnv direct".into(), e, case("fnv", &s));
                }
            }
        });
        acc.into_report(&mut rep, "fnv_all_strings_le_2");
        let acc = par_shards(alpha.len() * alpha.len(), |i, acc| {
            let mut stack: Vec<Vec<u8>> = vec![vec![alpha[i / alpha.len()], alpha[i % alpha.len()]]];
            while let Some(s) = stack.pop() {
                // incremental: only the last prefix is new
                acc.evaluations += 1;
                acc.nontrivial += 1;
                let v = match guarded(|| {
                    let mut h = PartialFNVHash::new();
                    h.update(&s);
                    h.value()
                }) {
                    Ok(v) => v,
                    Err(p) => {
                        acc.violation("fnv direct".into(), format!("panic after {}: {}", hex(&s), p), case("fnv", &s));
                        continue;
                    }
                };
                if v != refmodel::fnv6(&s) {
                    acc.violation("fnv direct".into(), format!("value after {}", hex(&s)), case("fnv", &s));
                }
                acc.bump(&format!("value={}", v / 16 * 16));
                if s.len() < maxl {
                    for &c in &alpha {
                        let mut t = s.clone();
                        t.push(c);
                        stack.push(t);
                    }
                }
            }
        });
        acc.into_report(&mut rep, "fnv_all_strings_over_7_byte_alphabet");
    }

    // ---- FNV: bulk (slice / += slice / += array / iterator) forms over structured 16- and 32-byte blocks
    //      (block-wise optimisations: sparse, half-zero, alternating data) and iterators of every length 1..=600
    {
        let halves: Vec<[u8; 8]> = {
            let mut v: Vec<[u8; 8]> = vec![[0; 8], [0xff; 8], [0xaa; 8], [0x55; 8], *b"ABABABAB", *b"01010101", [1, 0, 0, 0, 0, 0, 0, 0], [0, 0, 0, 0, 0, 0, 0, 0x80]];
            for i in 0..8 {
                let mut h = [0u8; 8];
                h[i] = 0x41 + i as u8;
                v.push(h);
            }
            v
        };
        let nh = halves.len();
        let acc = par_shards(nh * nh, |i, acc| {
            let mut block = halves[i / nh].to_vec();
            block.extend_from_slice(&halves[i % nh]);
            for prefix in [0usize, 1, 15] {
                for reps in [1usize, 2, 3] {
                    let mut s = vec![0x33u8; prefix];
                    for _ in 0..reps {
                        s.extend_from_slice(&block);
                    }
                    s.push(0x77);
                    acc.evaluations += 1;
                    acc.nontrivial += 1;
                    if let Err(e) = fnv_replay(&s) {
                        acc.violation("fnv blocks".into(), e, case("fnv", &s));
                    }
                    // the array form of the block itself
                    let arr: [u8; 16] = block.clone().try_into().unwrap();
                    let av = guarded(|| {
                        let mut a = PartialFNVHash::new();
                        a += &arr;
                        a.value()
                    });
                    if av != Ok(refmodel::fnv6(&block)) {
                        acc.violation("fnv array16".into(), format!("+= &[u8; 16] of {} gives {:?}", hex(&block), av), case("fnv", &block));
                    }
                }
            }
        });
        acc.into_report(&mut rep, "fnv_bulk_forms_over_structured_16_byte_blocks");
        let acc = par_shards(600, |n, acc| {
            let n = n + 1;
            let data: Vec<u8> = (0..n).map(|k| (k * 37 + k / 7) as u8).collect();
            acc.evaluations += 2;
            acc.nontrivial += 2;
            if let Err(e) = fnv_replay(&data) {
                acc.violation("fnv long iterator".into(), e, case("fnv", &data));
            }
            if let Err(e) = roll_replay(&data) {
                acc.violation("roll long iterator".into(), e, case("roll", &data));
            }
        });
        acc.into_report(&mut rep, "all_forms_over_strings_of_every_length_1_to_600");
        // every byte value at every position of the 7-byte window, in three contexts
        let acc = par_shards(256, |b, acc| {
            for ctx in [[0u8; 7], [0xff; 7], [0x12, 0x34, 0x56, 0x78, 0x9a, 0xbc, 0xde]] {
                for pos in 0..7 {
                    let mut w = ctx.to_vec();
                    w[pos] = b as u8;
                    // with and without bytes before the window
                    for prefix in [&[][..], &[0xeeu8; 5][..]] {
                        let mut s = prefix.to_vec();
                        s.extend_from_slice(&w);
                        acc.evaluations += 1;
                        acc.nontrivial += 1;
                        if let Err(e) = roll_replay(&s) {
                            acc.violation("roll byte value".into(), e, case("roll", &s));
                        }
                        if let Err(e) = fnv_replay(&s) {
                            acc.violation("fnv byte value".into(), e, case("fnv", &s));
                        }
                    }
                }
            }
        });
        acc.into_report(&mut rep, "every_byte_value_at_every_window_position");
    }

    // ---- rolling hash: closure over an alphabet
    {
        let sigma: Vec<u8> = ctx.tier.pick(vec![0x00, 0x01, 0x7f, 0x80, 0xff], vec![0x00, 0x01, 0x02, 0x7f, 0x80, 0xfe, 0xff]);
        TRANSITIONS.store(0, Ordering::Relaxed);
        let k = sigma.len() as u64;
        let sr = explore::run_stateright(RollModel { sigma: sigma.clone() }, 16);
        let sr_trans = TRANSITIONS.load(Ordering::Relaxed);
        for (name, path) in &sr.discoveries {
            rep.violation(Violation {
                signature: format!("roll {}", name),
                what: roll_replay(path).err().unwrap_or_else(|| name.clone()),
                case: case("roll", path),
            });
        }
        // cross-check explorer on the 3-byte sub-alphabet (closes at 7*3^7 = 15309)
        let small = RollModel { sigma: vec![0x00, 0x01, 0xff] };
        let b = explore::bfs(&small, 1 << 22, 2000);
        if let Some((name, path)) = &b.violation {
            if sr.discoveries.is_empty() {
                rep.violation(Violation {
                    signature: format!("roll {}", name),
                    what: roll_replay(path).err().unwrap_or_else(|| name.clone()),
                    case: case("roll", path),
                });
            }
        }
        for p in &b.sample_paths {
            if let Err(e) = roll_replay(p) {
                rep.violation(Violation { signature: "roll trace".into(), what: e, case: case("roll", p) });
            }
            traces += 1;
        }
        let expected_closed = 7 * k.pow(7);
        if sr.discoveries.is_empty() && sr.unique != expected_closed {
            // not a violation by itself (the key is over-fine), but worth reporting
            rep.set("roll_space_note", format!("unique states {} differ from 7*|S|^7 = {}", sr.unique, expected_closed));
        }
        states += sr.unique + b.states;
        transitions += sr_trans + b.transitions;
        rep.set(
            "roll_space",
            json!({"alphabet": sigma.iter().map(|x| format!("{:02x}", x)).collect::<Vec<_>>(),
                   "states": sr.unique, "transitions": sr_trans, "bfs_depth": sr.max_depth, "generated": sr.generated,
                   "expected_if_window_only": expected_closed,
                   "crosscheck_alphabet_3": {"states": b.states, "transitions": b.transitions, "depth": b.depth, "closed": !b.capped}}),
        );
        if b.capped {
            exhaustive = false;
        }
        if let Some(p) = b.sample_paths.first() {
            samples.push(json!({"roll_path": hex(p)}));
        }
        // structured / seeded long strings: every prefix against a from-scratch recomputation
        let mut lcg = Lcg(ctx.seed ^ 0x5eed);
        let mut strings: Vec<Vec<u8>> = vec![
            (0..=255u8).collect(),
            (0..=255u8).rev().collect(),
            vec![0xff; 600],
            [0xffu8, 0x00].repeat(300),
            crate::corpus::repeat(&crate::corpus::U, 40),
        ];
        for _ in 0..ctx.tier.pick(4, 32) {
            strings.push(lcg.bytes(4096));
        }
        let acc = par_shards(strings.len(), |i, acc| {
            acc.evaluations += strings[i].len() as u64;
            acc.nontrivial += strings[i].len() as u64;
            if let Err(e) = roll_replay(&strings[i]) {
                acc.violation("roll prefix".into(), e, case("roll", &strings[i]));
            }
        });
        acc.into_report(&mut rep, "roll_all_prefixes_of_structured_and_seeded_strings(supplementary)");
    }

    rep.set("states", states);
    rep.set("transitions", transitions);
    rep.set("traces_validated_against_impl", traces);
    rep.set("exhaustive", exhaustive);
    let mut all_samples = samples;
    if let Some(Value::Array(a)) = rep.coverage.get("samples") {
        all_samples.extend(a.iter().cloned());
    }
    rep.set("samples", Value::Array(all_samples));
    rep.set(
        "rule",
        "FNV: BFS over the real PartialFNVHash under all 256 bytes (closes; every transition taken through all six update forms, value compared with full 32-bit FNV-1 of a genuine witness path) + all strings <=2 bytes + all strings over a 7-byte alphabet up to the tier's length; rolling hash: BFS over the real RollingHash with key (Debug rendering, last 7 bytes) over the tier's alphabet (closes at 7*|S|^7 iff the value depends on the window only).  Every enumerated case is distinct by construction; a case is non-trivial when at least one byte was fed.",
    );
    rep.assume("the low six bits of h*P^c depend only on the low six bits of h (arithmetic fact used to extend the closed FNV space to all byte strings)");
    rep.assume("rolling-hash closure is over the stated byte alphabet; other byte values are covered only by the structured and seeded prefix sweeps");
    rep
}
