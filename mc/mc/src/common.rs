//! Shared infrastructure of the checks: tiers, reports, evidence, replay
//! files, known findings, panic capture, sharded enumeration.

use serde_json::{json, Map, Value};
use std::collections::BTreeMap;
use std::panic::{catch_unwind, AssertUnwindSafe};
use std::path::{Path, PathBuf};
use std::time::Instant;

#[derive(Clone, Copy, Debug, PartialEq, Eq)]
pub enum Tier {
    Quick,
    Thorough,
}
impl Tier {
    pub fn name(self) -> &'static str {
        match self {
            Tier::Quick => "quick",
            Tier::Thorough => "thorough",
        }
    }
    pub fn pick<T>(self, quick: T, thorough: T) -> T {
        match self {
            Tier::Quick => quick,
            Tier::Thorough => thorough,
        }
    }
}

pub struct Ctx {
    pub id: String,
    pub tier: Tier,
    pub seed: u64,
    pub start: Instant,
    pub verif_dir: PathBuf,
    /// "release" or "relda" (release + debug assertions + overflow checks)
    pub profile: &'static str,
    /// wall-clock cap in seconds for capped explorations (reported when hit)
    pub wall_cap_s: f64,
}

impl Ctx {
    pub fn elapsed(&self) -> f64 {
        self.start.elapsed().as_secs_f64()
    }
    pub fn over_budget(&self) -> bool {
        self.elapsed() > self.wall_cap_s
    }
}

/// One violating case.  `signature` is a stable, human-readable identity of
/// the failing input / call site / history (used by known-findings.txt);
/// `case` is the replayable artefact.
#[derive(Clone, Debug)]
pub struct Violation {
    pub signature: String,
    pub what: String,
    pub case: Value,
}

pub struct Report {
    pub level: &'static str,
    pub coverage: Map<String, Value>,
    pub assumptions: Vec<String>,
    pub violations: Vec<Violation>,
    /// total number of violating cases (may exceed violations.len(), which is capped)
    pub violation_count: u64,
}

pub const MAX_RECORDED_VIOLATIONS: usize = 16;

impl Report {
    pub fn new(level: &'static str) -> Self {
        Report {
            level,
            coverage: Map::new(),
            assumptions: vec![],
            violations: vec![],
            violation_count: 0,
        }
    }
    pub fn set<T: Into<Value>>(&mut self, key: &str, v: T) {
        self.coverage.insert(key.to_string(), v.into());
    }
    pub fn add_u64(&mut self, key: &str, n: u64) {
        let cur = self.coverage.get(key).and_then(|v| v.as_u64()).unwrap_or(0);
        self.coverage.insert(key.to_string(), json!(cur + n));
    }
    pub fn assume(&mut self, s: &str) {
        self.assumptions.push(s.to_string());
    }
    pub fn violation(&mut self, v: Violation) {
        self.violation_count += 1;
        if self.violations.len() < MAX_RECORDED_VIOLATIONS {
            self.violations.push(v);
        }
    }
    pub fn merge_violations(&mut self, vs: Vec<Violation>, count: u64) {
        self.violation_count += count;
        for v in vs {
            if self.violations.len() < MAX_RECORDED_VIOLATIONS {
                self.violations.push(v);
            }
        }
    }
    pub fn histogram(&mut self, key: &str, h: &BTreeMap<String, u64>) {
        let m: Map<String, Value> = h.iter().map(|(k, v)| (k.clone(), json!(v))).collect();
        self.coverage.insert(key.to_string(), Value::Object(m));
    }
}

/// Per-shard accumulator, merged in shard order (deterministic).
#[derive(Default, Clone)]
pub struct Acc {
    pub evaluations: u64,
    pub nontrivial: u64,
    pub hist: BTreeMap<String, u64>,
    pub counters: BTreeMap<String, u64>,
    pub violations: Vec<Violation>,
    pub violation_count: u64,
    pub samples: Vec<Value>,
}

impl Acc {
    pub fn bump(&mut self, key: &str) {
        *self.hist.entry(key.to_string()).or_default() += 1;
    }
    pub fn count(&mut self, key: &str, n: u64) {
        *self.counters.entry(key.to_string()).or_default() += n;
    }
    pub fn max(&mut self, key: &str, n: u64) {
        let e = self.counters.entry(key.to_string()).or_default();
        if n > *e {
            *e = n;
        }
    }
    pub fn violation(&mut self, signature: String, what: String, case: Value) {
        self.violation_count += 1;
        if self.violations.len() < MAX_RECORDED_VIOLATIONS {
            self.violations.push(Violation { signature, what, case });
        }
    }
    pub fn sample(&mut self, v: Value) {
        if self.samples.len() < 3 {
            self.samples.push(v);
        }
    }
    pub fn merge(&mut self, o: Acc) {
        self.evaluations += o.evaluations;
        self.nontrivial += o.nontrivial;
        for (k, v) in o.hist {
            *self.hist.entry(k).or_default() += v;
        }
        for (k, v) in o.counters {
            if k.starts_with("max_") {
                let e = self.counters.entry(k).or_default();
                if v > *e {
                    *e = v;
                }
            } else {
                *self.counters.entry(k).or_default() += v;
            }
        }
        self.violation_count += o.violation_count;
        for v in o.violations {
            if self.violations.len() < MAX_RECORDED_VIOLATIONS {
                self.violations.push(v);
            }
        }
        for s in o.samples {
            if self.samples.len() < 6 {
                self.samples.push(s);
            }
        }
    }
    /// Fold this accumulator into a report under a section prefix.
    pub fn into_report(self, rep: &mut Report, section: &str) {
        rep.add_u64("evaluations", self.evaluations);
        rep.add_u64("distinct_nontrivial", self.nontrivial);
        let mut sec = Map::new();
        sec.insert("evaluations".into(), json!(self.evaluations));
        sec.insert("distinct_nontrivial".into(), json!(self.nontrivial));
        if !self.hist.is_empty() {
            sec.insert(
                "outcomes".into(),
                Value::Object(self.hist.iter().map(|(k, v)| (k.clone(), json!(v))).collect()),
            );
            sec.insert("distinct_outcomes".into(), json!(self.hist.len()));
        }
        for (k, v) in &self.counters {
            sec.insert(k.clone(), json!(v));
        }
        sec.insert("violations".into(), json!(self.violation_count));
        let sections = rep
            .coverage
            .entry("sections".to_string())
            .or_insert_with(|| Value::Object(Map::new()));
        sections.as_object_mut().unwrap().insert(section.to_string(), Value::Object(sec));
        let samples = rep.coverage.entry("samples".to_string()).or_insert_with(|| json!([]));
        let arr = samples.as_array_mut().unwrap();
        for s in self.samples {
            if arr.len() < 12 {
                arr.push(json!({"section": section, "case": s}));
            }
        }
        rep.merge_violations(self.violations, self.violation_count);
    }
}

/// Run `f` over `0..n` in parallel shards, merging accumulators in index order.
pub fn par_shards<F>(n: usize, f: F) -> Acc
where
    F: Fn(usize, &mut Acc) + Sync,
{
    use rayon::prelude::*;
    let accs: Vec<Acc> = (0..n)
        .into_par_iter()
        .map(|i| {
            let mut a = Acc::default();
            f(i, &mut a);
            a
        })
        .collect();
    let mut total = Acc::default();
    for a in accs {
        total.merge(a);
    }
    total
}

/// Run a per-case check: a panic that escapes from the library through a call that is not individually guarded is
/// a violation of that case (with the panic message), never a crash of the explorer.
pub fn guard_case<T>(f: impl FnOnce() -> Result<T, String>) -> Result<T, String> {
    match guarded(f) {
        Ok(r) => r,
        Err(p) => Err(format!("panic: {}", p)),
    }
}

/// Call into the library, turning a panic into `Err(message)`.
pub fn guarded<T>(f: impl FnOnce() -> T) -> Result<T, String> {
    match catch_unwind(AssertUnwindSafe(f)) {
        Ok(v) => Ok(v),
        Err(e) => {
            let msg = if let Some(s) = e.downcast_ref::<&str>() {
                s.to_string()
            } else if let Some(s) = e.downcast_ref::<String>() {
                s.clone()
            } else {
                "panic".to_string()
            };
            Err(msg)
        }
    }
}

pub fn quiet_panics() {
    std::panic::set_hook(Box::new(|_| {}));
}

// ---------------------------------------------------------------- known findings

#[derive(Debug, Clone)]
pub struct KnownFinding {
    pub property: String,
    pub signature: String,
}

/// `known-findings.txt` lines:
///   `known: property=<id> <signature prefix>`  suppresses (prints KNOWN-FINDING)
///   `fixed: property=<id> <commit> <what failed>`  suppresses nothing
pub fn load_known(path: &Path) -> Vec<KnownFinding> {
    let mut out = vec![];
    if let Ok(s) = std::fs::read_to_string(path) {
        for line in s.lines() {
            let line = line.trim();
            if let Some(rest) = line.strip_prefix("known:") {
                let rest = rest.trim();
                if let Some(r) = rest.strip_prefix("property=") {
                    let mut it = r.splitn(2, ' ');
                    let id = it.next().unwrap_or("").to_string();
                    let sig = it.next().unwrap_or("").trim().to_string();
                    if !id.is_empty() && !sig.is_empty() {
                        out.push(KnownFinding { property: id, signature: sig });
                    }
                }
            }
        }
    }
    out
}

// ---------------------------------------------------------------- output

pub fn write_json(path: &Path, v: &Value) -> std::io::Result<()> {
    if let Some(p) = path.parent() {
        std::fs::create_dir_all(p)?;
    }
    std::fs::write(path, serde_json::to_string_pretty(v).unwrap() + "\n")
}

pub fn hex(b: &[u8]) -> String {
    b.iter().map(|x| format!("{:02x}", x)).collect()
}
pub fn unhex(s: &str) -> Vec<u8> {
    (0..s.len() / 2).map(|i| u8::from_str_radix(&s[2 * i..2 * i + 2], 16).unwrap()).collect()
}
/// printable rendering of a byte text for samples / signatures
pub fn show(b: &[u8]) -> String {
    let mut s = String::new();
    for &c in b.iter().take(300) {
        if (0x20..0x7f).contains(&c) && c != b'\\' {
            s.push(c as char);
        } else {
            s.push_str(&format!("\\x{:02x}", c));
        }
    }
    if b.len() > 300 {
        s.push_str(&format!("...(+{})", b.len() - 300));
    }
    s
}

/// Deterministic 64-bit FNV-1a for state keys / digests (no RandomState).
pub fn h64(bytes: &[u8]) -> u64 {
    let mut h: u64 = 0xcbf29ce484222325;
    for &b in bytes {
        h ^= b as u64;
        h = h.wrapping_mul(0x100000001b3);
    }
    h
}

/// Small deterministic generator for the *supplementary* seeded strings only.
pub struct Lcg(pub u64);
impl Lcg {
    pub fn next(&mut self) -> u32 {
        self.0 = self.0.wrapping_mul(6364136223846793005).wrapping_add(1442695040888963407);
        (self.0 >> 33) as u32
    }
    pub fn bytes(&mut self, n: usize) -> Vec<u8> {
        (0..n).map(|_| (self.next() >> 8) as u8).collect()
    }
}
