//! C05 — text round trip and formatter contract.

use crate::common::*;
use crate::corpus;
use crate::hashobj::*;
use refmodel::text as rt;
use serde_json::{json, Value};
use ssdeep::{FuzzyHash, FuzzyHashOperationError, LongFuzzyHash, LongRawFuzzyHash, RawFuzzyHash};

const TYPES: [&str; 4] = ["RawFuzzyHash", "LongRawFuzzyHash", "FuzzyHash", "LongFuzzyHash"];

/// One object: all formatter routes agree with the reference formatter; the
/// caller-buffer form honours its contract for the given buffer lengths; the
/// text parses back to an equal object.
fn check_object<T: Plain>(log: u8, bh1: &[u8], bh2: &[u8], all_lengths: bool) -> Result<(), String> {
    let (c1, c2) = if T::NORM { (refmodel::normalize(bh1), refmodel::normalize(bh2)) } else { (bh1.to_vec(), bh2.to_vec()) };
    let h = guarded(|| T::near_raw(log, &c1, &c2))?;
    let exp = rt::format(log, &c1, &c2);
    let l = guarded(|| h.len_in_str())?;
    if l != exp.len() {
        return Err(format!("len_in_str {} != {}", l, exp.len()));
    }
    if l > T::MAX_LEN_IN_STR || T::MAX_LEN_IN_STR > ssdeep::MAX_LEN_IN_STR {
        return Err(format!("len_in_str {} exceeds the advertised maximum {}", l, T::MAX_LEN_IN_STR));
    }
    let s1 = guarded(|| h.string())?;
    let s2 = guarded(|| format!("{}", h))?;
    let s3 = guarded(|| h.into_string())?;
    if s1 != exp || s2 != exp || s3 != exp {
        return Err(format!("text routes disagree: to_string={} Display={} String::from={} expected={}", s1, s2, s3, exp));
    }
    let maxlen = ssdeep::MAX_LEN_IN_STR + 8;
    let lens: Vec<usize> = if all_lengths {
        (0..=maxlen).collect()
    } else {
        let mut v = vec![0, l.saturating_sub(1), l, l + 1, maxlen];
        v.dedup();
        v
    };
    for &bl in &lens {
        let mut buf = vec![0xAAu8; bl];
        let r = guarded(|| h.store(&mut buf))?;
        if bl < l {
            if r != Err(FuzzyHashOperationError::StringizationOverflow) {
                return Err(format!("buffer {} < {}: result {:?}", bl, l, r));
            }
            if buf.iter().any(|&b| b != 0xAA) {
                return Err(format!("buffer of length {} (too small) was written to", bl));
            }
        } else {
            if r != Ok(l) {
                return Err(format!("buffer {} >= {}: result {:?}", bl, l, r));
            }
            if &buf[..l] != exp.as_bytes() {
                return Err(format!("buffer content {} != {}", show(&buf[..l]), exp));
            }
            if buf[l..].iter().any(|&b| b != 0xAA) {
                return Err(format!("bytes beyond the text were modified (buffer {})", bl));
            }
        }
    }
    let back = guarded(|| T::parse_str(&exp))?.map_err(|e| format!("own text {} does not parse: {:?}", exp, e))?;
    if back != h || !back.full_eq(&h) || back.string() != exp {
        return Err(format!("round trip gives a different object: {} -> {}", exp, back));
    }
    Ok(())
}

/// One accepted text: raw types reproduce it up to the comma; normalising
/// types give the run-collapsed text.
fn check_text<T: Plain>(t: &[u8]) -> Result<&'static str, String> {
    let rule = rt::Rule { cap1: 64, cap2: T::CAP2, count_normalized: T::NORM && !crate::c04::STRICT, strict: crate::c04::STRICT };
    let p = match rt::parse(t, rule) {
        Ok(p) => p,
        Err(_) => {
            // a text the grammar rejects must be rejected by every entry point (otherwise an accepted text would not
            // format back to itself)
            if let Ok(h) = guarded(|| T::parse_bytes(t))? {
                return Err(format!("from_bytes accepts a text the grammar rejects (gives {})", h));
            }
            let mut idx = 0usize;
            if let Ok(h) = guarded(|| T::parse_bytes_idx(t, &mut idx))? {
                return Err(format!("from_bytes_with_last_index accepts a text the grammar rejects (gives {})", h));
            }
            if let Ok(st) = std::str::from_utf8(t) {
                if let Ok(h) = guarded(|| T::parse_str(st))? {
                    return Err(format!("str::parse accepts a text the grammar rejects (gives {})", h));
                }
            }
            return Ok("not-accepted");
        }
    };
    let h = guarded(|| T::parse_bytes(t))?.map_err(|e| format!("accepted text rejected: {:?}", e))?;
    if let Ok(st) = std::str::from_utf8(t) {
        let h2 = guarded(|| T::parse_str(st))?.map_err(|e| format!("accepted text rejected by str::parse: {:?}", e))?;
        if h2 != h || !h2.full_eq(&h) {
            return Err(format!("str::parse gives {} but from_bytes gives {}", h2, h));
        }
    }
    // the entry point that reports where the hash part ends: same object, and "up to the comma" means up to that index
    let mut idx = usize::MAX;
    let h3 = guarded(|| T::parse_bytes_idx(t, &mut idx))?.map_err(|e| format!("accepted text rejected by from_bytes_with_last_index: {:?}", e))?;
    if h3 != h || !h3.full_eq(&h) || idx != p.end {
        return Err(format!("from_bytes_with_last_index gives {} and end index {} (the hash part ends at {}); from_bytes gives {}", h3, idx, p.end, h));
    }
    let s = guarded(|| h.string())?;
    if T::NORM {
        let exp = rt::format(p.log, &refmodel::normalize(&p.bh1), &refmodel::normalize(&p.bh2));
        if s != exp {
            return Err(format!("normalising type gives {} expected run-collapsed {}", s, exp));
        }
    } else if s.as_bytes() != &t[..p.end] {
        return Err(format!("raw type gives {} but the text up to the comma is {}", s, show(&t[..p.end])));
    }
    Ok("accepted")
}

fn check_object_ty(ty: usize, log: u8, bh1: &[u8], bh2: &[u8], all: bool) -> Result<(), String> {
    // a panic escaping from the library through any call below is a violation of this case, not a crash
    guard_case(|| check_object_ty_unguarded(ty, log, bh1, bh2, all))
}

fn check_object_ty_unguarded(ty: usize, log: u8, bh1: &[u8], bh2: &[u8], all: bool) -> Result<(), String> {
    match ty {
        0 => check_object::<RawFuzzyHash>(log, bh1, bh2, all),
        1 => check_object::<LongRawFuzzyHash>(log, bh1, bh2, all),
        2 => check_object::<FuzzyHash>(log, bh1, bh2, all),
        _ => check_object::<LongFuzzyHash>(log, bh1, bh2, all),
    }
}
fn check_text_ty(ty: usize, t: &[u8]) -> Result<&'static str, String> {
    // a panic escaping from the library through any call below is a violation of this case, not a crash
    guard_case(|| check_text_ty_unguarded(ty, t))
}

fn check_text_ty_unguarded(ty: usize, t: &[u8]) -> Result<&'static str, String> {
    match ty {
        0 => check_text::<RawFuzzyHash>(t),
        1 => check_text::<LongRawFuzzyHash>(t),
        2 => check_text::<FuzzyHash>(t),
        _ => check_text::<LongFuzzyHash>(t),
    }
}

pub fn replay(c: &Value) -> Result<(), String> {
    let ty = TYPES.iter().position(|n| Some(*n) == c["type"].as_str()).ok_or("type")?;
    if let Some(t) = c["text_hex"].as_str() {
        return check_text_ty(ty, &unhex(t)).map(|_| ());
    }
    let log = c["log"].as_u64().ok_or("log")? as u8;
    let bh1 = unhex(c["bh1"].as_str().ok_or("bh1")?);
    let bh2 = unhex(c["bh2"].as_str().ok_or("bh2")?);
    check_object_ty(ty, log, &bh1, &bh2, true)
}

pub fn run(ctx: &Ctx) -> Report {
    let mut rep = Report::new("model_checking");
    let thorough = ctx.tier == Tier::Thorough;
    for ty in 0..4 {
        let cap2 = if ty % 2 == 0 { 32 } else { 64 };
        let mut corp = corpus::hash_corpus(cap2, thorough);
        if ty >= 2 {
            // normalising types: distinct raw contents may collapse to the same object
            for c in corp.iter_mut() {
                c.1 = refmodel::normalize(&c.1);
                c.2 = refmodel::normalize(&c.2);
            }
            corp.sort();
            corp.dedup();
        }
        let stride_all = ctx.tier.pick(40usize, 4);
        let shards = 128;
        let per = (corp.len() + shards - 1) / shards;
        let acc = par_shards(shards, |s, acc| {
            for i in (s * per)..((s + 1) * per).min(corp.len()) {
                let (log, a, b) = &corp[i];
                let all = i % stride_all == 0 || a.len() + b.len() >= 64 + cap2 - 1;
                acc.evaluations += 1;
                acc.nontrivial += 1;
                acc.bump(if all { "every-buffer-length-0..max+8" } else { "border-buffer-lengths" });
                if let Err(e) = check_object_ty(ty, *log, a, b, all) {
                    acc.violation(
                        format!("{} object {}", TYPES[ty], rt::format(*log, a, b)),
                        e,
                        json!({"type": TYPES[ty], "log": log, "bh1": hex(a), "bh2": hex(b)}),
                    );
                }
                if i == corp.len() - 1 {
                    acc.sample(json!({"type": TYPES[ty], "object": rt::format(*log, a, b)}));
                }
            }
        });
        acc.into_report(&mut rep, &format!("objects_{}", TYPES[ty]));
    }
    // accepted texts of the C04 grammar corpus
    let (texts, nbase) = crate::c04::corpus(false);
    let stride = ctx.tier.pick(3usize, 1);
    let texts: Vec<&Vec<u8>> = texts.iter().step_by(stride).collect();
    let shards = 128;
    let per = (texts.len() + shards - 1) / shards;
    let acc = par_shards(shards, |s, acc| {
        for i in (s * per)..((s + 1) * per).min(texts.len()) {
            for ty in 0..4 {
                match check_text_ty(ty, texts[i]) {
                    Ok(o) => {
                        if o == "accepted" {
                            acc.evaluations += 1;
                            acc.nontrivial += 1;
                        }
                        acc.bump(&format!("{}:{}", TYPES[ty], o));
                    }
                    Err(e) => {
                        acc.evaluations += 1;
                        acc.violation(
                            format!("{} text={}", TYPES[ty], show(&texts[i][..texts[i].len().min(90)])),
                            e,
                            json!({"type": TYPES[ty], "text_hex": hex(texts[i]), "text": show(texts[i])}),
                        );
                    }
                }
            }
            if i % 100_000 == 11 {
                acc.sample(json!({"text": show(texts[i])}));
            }
        }
    });
    acc.into_report(&mut rep, "accepted_texts_reformat");
    rep.set("text_corpus_size", texts.len());
    rep.set("text_corpus_grammar_part", nbase);
    rep.set("exhaustive", true);
    rep.set(
        "rule",
        "objects: the hash corpus HASH(T) of each plain type (log in {0,30} x block-hash families (all strings <=5 over {A,B,/}; one run of every length at every position; two runs; capacity lengths) x 12 small partners, plus all 31 logs); per object to_string / Display / String::from / store_into_bytes against the reference formatter, buffers of every length 0..max+8 for a strided subset and all near-capacity objects, border lengths for the rest; round trip through the parser.  texts: every text of the C04 corpus the grammar accepts is parsed and formatted again.  Objects and texts are de-duplicated; distinct_nontrivial counts objects plus accepted (text, type) pairs.",
    );
    rep
}
