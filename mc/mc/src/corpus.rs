//! Deterministic corpora shared by the checks.

use refmodel::roll;

/// Trigger words: `roll(W[k]) + 1` is a multiple of 3*2^k and (k < 30) not of 3*2^(k+1).
/// Because the rolling hash depends on the last seven bytes only, `W[k]` ends a
/// piece at block-size levels 0..=k wherever it is placed.
pub const W: [[u8; 7]; 31] = [
    [0, 44, 28, 97, 16, 144, 249],
    [3, 173, 192, 252, 8, 107, 227],
    [1, 102, 92, 118, 8, 116, 213],
    [2, 50, 246, 116, 8, 187, 244],
    [2, 117, 205, 66, 0, 111, 253],
    [2, 114, 246, 99, 24, 94, 252],
    [0, 41, 103, 51, 8, 128, 241],
    [0, 33, 11, 127, 0, 104, 245],
    [0, 32, 212, 220, 24, 66, 253],
    [0, 216, 255, 184, 8, 106, 229],
    [0, 107, 9, 123, 24, 107, 230],
    [3, 191, 52, 40, 0, 81, 229],
    [3, 253, 198, 29, 8, 246, 119],
    [3, 215, 78, 178, 16, 108, 254],
    [3, 246, 95, 74, 8, 123, 220],
    [2, 80, 14, 154, 24, 135, 240],
    [0, 4, 18, 145, 24, 140, 226],
    [3, 171, 32, 147, 24, 127, 240],
    [0, 50, 150, 71, 24, 131, 225],
    [2, 108, 104, 143, 24, 115, 255],
    [3, 76, 96, 159, 24, 125, 231],
    [3, 195, 6, 255, 24, 106, 239],
    [3, 71, 13, 223, 24, 125, 234],
    [3, 193, 36, 127, 24, 127, 242],
    [2, 153, 232, 255, 24, 81, 254],
    [3, 252, 221, 95, 24, 98, 248],
    [3, 97, 159, 31, 24, 135, 238],
    [1, 132, 249, 223, 24, 88, 234],
    [3, 114, 184, 255, 24, 96, 216],
    [0, 168, 249, 223, 24, 89, 225],
    [0, 217, 222, 63, 24, 106, 243],
];
/// roll = 0xFFFF_FFFF: `roll + 1` wraps to 0 and must not end a piece.
pub const U: [u8; 7] = [2, 57, 219, 159, 24, 110, 255];
/// seven zero bytes: roll = 0 (the "no trailing piece" rule)
pub const Z: [u8; 7] = [0; 7];
/// filler that triggers nowhere
pub const F: [u8; 7] = [1, 2, 3, 4, 5, 6, 7];
/// the repository suite's own word, a second W_30 (roll + 1 = 3 * 2^30)
pub const W30B: [u8; 7] = *b"`]]]_CT";
/// Words at the corners of the trigger arithmetic (found by search; validated at start-up):
/// (name, word, roll value).  roll+1 = 0xFFFFFFFF = 3*0x55555555 is the LARGEST multiple of 3 (quotient odd:
/// level 0 only); roll+1 = 0xFFFFFFFC = 3*0x55555554 (levels 0..=2); roll+1 = 3 and 6 are the smallest ones;
/// roll+1 = 0xBFFFFFFF is just below 3*2^30 and must not trigger.
pub const CORNER_WORDS: [(&str, [u8; 7], u32); 7] = [
    ("Xfe", [96, 126, 63, 27, 152, 112, 217], 0xFFFF_FFFE),
    ("Xfb", [96, 126, 63, 27, 152, 115, 225], 0xFFFF_FFFB),
    ("X2", [96, 126, 63, 27, 152, 114, 223], 2),
    ("X5", [96, 126, 63, 27, 152, 115, 219], 5),
    ("Xbf", [110, 158, 61, 95, 24, 120, 217], 0xBFFF_FFFE),
    // rolling hash exactly 0 although the window is not zero (h1 + h2 + h3 = 2^32): the "no trailing piece" rule
    // looks at the 32-bit value, not at the window contents
    ("X0", [0x01, 0x58, 0xf8, 0xf8, 0xf8, 0x58, 0x56], 0),
    // rolling hash exactly 0 with a non-zero window, and a following zero byte ends a piece (levels 0 and 1)
    ("X0t", [0x00, 0x78, 0xf8, 0xf8, 0xf8, 0x3d, 0xdd], 0),
];

/// Validate the table against the reference rolling hash.  A failure is a
/// machinery error, not a verdict.
pub fn validate_words() -> Result<(), String> {
    for k in 0..31usize {
        let v = roll(&W[k]).wrapping_add(1) as u64;
        if v == 0 || v % (3u64 << k) != 0 {
            return Err(format!("W[{}] does not trigger level {}", k, k));
        }
        if k < 30 && v % (3u64 << (k + 1)) == 0 {
            return Err(format!("W[{}] also triggers level {}", k, k + 1));
        }
        // placed anywhere: every 7-byte window strictly inside a repetition
        // must not matter; what matters is that the last 7 bytes decide.
    }
    if roll(&U) != 0xFFFF_FFFF {
        return Err("U".into());
    }
    if roll(&Z) != 0 {
        return Err("Z".into());
    }
    let vf = roll(&F).wrapping_add(1);
    if vf % 3 == 0 {
        return Err("F triggers".into());
    }
    for (name, w, r) in CORNER_WORDS.iter() {
        if roll(w) != *r {
            return Err(format!("corner word {}", name));
        }
    }
    let vb = roll(&W30B).wrapping_add(1) as u64;
    if vb != 3u64 << 30 {
        return Err("W30B".into());
    }
    Ok(())
}

/// The generator alphabet: 31 trigger words, Z, U, F, and the single bytes 00, 01.
pub fn gen_alphabet() -> Vec<(String, Vec<u8>)> {
    let mut a: Vec<(String, Vec<u8>)> =
        (0..31).map(|k| (format!("W{}", k), W[k].to_vec())).collect();
    a.push(("Z".into(), Z.to_vec()));
    a.push(("U".into(), U.to_vec()));
    a.push(("F".into(), F.to_vec()));
    a.push(("00".into(), vec![0]));
    a.push(("01".into(), vec![1]));
    for (name, w, _) in CORNER_WORDS.iter() {
        a.push((name.to_string(), w.to_vec()));
    }
    a
}

pub fn repeat(word: &[u8], n: usize) -> Vec<u8> {
    let mut v = Vec::with_capacity(word.len() * n);
    for _ in 0..n {
        v.extend_from_slice(word);
    }
    v
}

// ------------------------------------------------------------ block hash families

/// Run-free ramp of symbols 1..=62 (never 0 'A' or 63 '/') starting at `start`.
pub fn ramp(n: usize, start: usize) -> Vec<u8> {
    (0..n).map(|i| (1 + (start + i) % 62) as u8).collect()
}

/// Small symbol alphabet: 0 ('A', collides with the zero padding), 1, 63 (max symbol).
pub const SIGMA3: [u8; 3] = [0, 1, 63];

/// All strings of length <= n over `alpha`, shortest first.
pub fn all_strings(alpha: &[u8], n: usize) -> Vec<Vec<u8>> {
    let mut out = vec![vec![]];
    let mut layer: Vec<Vec<u8>> = vec![vec![]];
    for _ in 0..n {
        let mut next = Vec::with_capacity(layer.len() * alpha.len());
        for s in &layer {
            for &c in alpha {
                let mut t = s.clone();
                t.push(c);
                next.push(t);
            }
        }
        out.extend(next.iter().cloned());
        layer = next;
    }
    out
}

/// RUN1(N): one run of symbol `sym` of length L at position p in run-free
/// filler, total length `total` for every p + L <= total, total in `totals`.
pub fn run1(cap: usize, syms: &[u8], totals: &[usize]) -> Vec<Vec<u8>> {
    let mut out = vec![];
    for &total in totals {
        if total > cap {
            continue;
        }
        for &sym in syms {
            for l in 1..=total {
                for p in 0..=(total - l) {
                    let mut s = ramp(p, 0);
                    s.extend(std::iter::repeat(sym).take(l));
                    s.extend(ramp(total - p - l, p + 7));
                    out.push(s);
                }
            }
        }
    }
    out
}

/// RUN2: two runs (possibly adjacent, of different symbols) with the given
/// lengths and gaps, including both ends and ending at the capacity.
pub fn run2(cap: usize) -> Vec<Vec<u8>> {
    let lens = [1usize, 3, 4, 5, 7, 8, 9, 11, 12];
    let gaps = [0usize, 1, 2];
    let mut out = vec![];
    for &l1 in &lens {
        for &l2 in &lens {
            for &g in &gaps {
                for &lead in &[0usize, 1, 5] {
                    for &(s1, s2) in &[(0u8, 63u8), (63, 0), (5, 5), (0, 0)] {
                        if g == 0 && s1 == s2 {
                            continue;
                        }
                        let body = lead + l1 + g + l2;
                        if body > cap {
                            continue;
                        }
                        // variant a: short tail; variant b: padded to end at capacity
                        for &endcap in &[false, true] {
                            let mut s = ramp(lead, 0);
                            s.extend(std::iter::repeat(s1).take(l1));
                            s.extend(ramp(g, 20));
                            s.extend(std::iter::repeat(s2).take(l2));
                            if endcap {
                                let pad = cap - body;
                                let mut t = ramp(pad, 31);
                                t.extend(s);
                                s = t;
                            }
                            out.push(s);
                        }
                    }
                }
            }
        }
    }
    out.sort();
    out.dedup();
    out
}

/// A 12-element set of small block hashes used as the "other" block hash.
pub fn small_set() -> Vec<Vec<u8>> {
    vec![
        vec![],
        vec![0],
        vec![63],
        vec![0, 0, 0],
        vec![0, 0, 0, 0],
        vec![1, 1, 1, 1, 1],
        ramp(6, 0),
        ramp(7, 0),
        ramp(8, 3),
        ramp(31, 9),
        ramp(32, 11),
        {
            let mut v = ramp(20, 0);
            v.extend([63; 6]);
            v.extend([0; 6]);
            v
        },
    ]
}

/// Canonical block-hash family BH(cap): EXH (all strings <= 5 over SIGMA3),
/// RUN1 at totals {cap-1, cap, 10, 40 (if it fits)}, RUN2, CAP.
pub fn bh_family(cap: usize, thorough: bool) -> Vec<Vec<u8>> {
    let mut out = all_strings(&SIGMA3, if thorough { 6 } else { 5 });
    let mut totals = vec![10usize, cap - 1, cap];
    if thorough {
        totals.extend([20, cap / 2, cap - 2]);
    }
    totals.sort();
    totals.dedup();
    let syms: &[u8] = if thorough { &[0, 63, 7] } else { &[0, 63] };
    out.extend(run1(cap, syms, &totals));
    out.extend(run2(cap));
    out.push(ramp(cap - 1, 0));
    out.push(ramp(cap, 0));
    out.push(vec![0; cap]);
    out.push(vec![63; cap]);
    // a run of every one of the 64 symbols: leading, in the middle, trailing
    for sym in 0..64u8 {
        for k in [3usize, 4, 7] {
            out.push(vec![sym; k]);
            let o = (sym as usize + 20) % 64;
            let mut mid = vec![o as u8, ((o + 1) % 64) as u8];
            mid.extend(vec![sym; k]);
            mid.push(((o + 2) % 64) as u8);
            out.push(mid);
        }
    }
    out.sort();
    out.dedup();
    // shortest first so the first counterexample is the simplest
    out.sort_by(|a, b| a.len().cmp(&b.len()).then(a.cmp(b)));
    out
}

// ------------------------------------------------------------ hash object corpus

/// Raw hash contents (log, bh1, bh2) for a type with block hash 2 capacity `cap2`:
/// log in {0, 30} x (BH(64) x S  U  S x BH(cap2)), plus all 31 logs x S' x S'.
pub fn hash_corpus(cap2: usize, thorough: bool) -> Vec<(u8, Vec<u8>, Vec<u8>)> {
    let s = small_set();
    let s2: Vec<Vec<u8>> = s.iter().filter(|v| v.len() <= cap2).cloned().collect();
    let f1 = bh_family(64, thorough);
    let f2 = bh_family(cap2, thorough);
    let mut out = vec![];
    for &log in &[0u8, 30] {
        for (i, a) in f1.iter().enumerate() {
            // every family member against two small partners (rotating), all partners for a strided subset
            for (j, b) in s2.iter().enumerate() {
                if i % 16 == 0 || j == i % s2.len() || j == 0 {
                    out.push((log, a.clone(), b.clone()));
                }
            }
        }
        for (i, b) in f2.iter().enumerate() {
            for (j, a) in s.iter().enumerate() {
                if i % 16 == 0 || j == i % s.len() || j == 0 {
                    out.push((log, a.clone(), b.clone()));
                }
            }
        }
    }
    for log in 0..31u8 {
        for a in s.iter().step_by(3) {
            for b in s2.iter().step_by(2) {
                out.push((log, a.clone(), b.clone()));
            }
        }
    }
    out.sort();
    out.dedup();
    out.sort_by(|x, y| (x.1.len() + x.2.len()).cmp(&(y.1.len() + y.2.len())).then(x.cmp(y)));
    out
}
