//! C16 — equality, hashing and ordering are consistent and follow the documented order.

use crate::common::*;
use crate::corpus::ramp;
use crate::hashobj::*;
use refmodel::text as rt;
use serde_json::{json, Value};
use ssdeep::{DualFuzzyHash, FuzzyHash, LongDualFuzzyHash, LongFuzzyHash, LongRawFuzzyHash, RawFuzzyHash};
use std::cmp::Ordering;

type Content = (u8, Vec<u8>, Vec<u8>);
const TYPES: [&str; 6] =
    ["RawFuzzyHash", "LongRawFuzzyHash", "FuzzyHash", "LongFuzzyHash", "DualFuzzyHash", "LongDualFuzzyHash"];

/// Block-hash strings that stress the order: trailing symbol-0 characters,
/// proper prefixes, first difference 0 vs 1 vs 63, lengths near 0 and the capacity.
fn bh_strings(cap: usize, rich: bool) -> Vec<Vec<u8>> {
    let mut v: Vec<Vec<u8>> = vec![
        vec![],
        vec![0],
        vec![0, 0],
        vec![0, 0, 0],
        vec![1],
        vec![1, 0],
        vec![1, 0, 0],
        vec![1, 0, 0, 0],
        vec![1, 0, 1],
        vec![1, 1],
        vec![1, 63],
        vec![63],
        vec![63, 0],
        vec![0, 1],
        vec![0, 63],
        vec![2, 5, 9],
        vec![2, 5, 9, 0],
        vec![2, 5, 10],
    ];
    let full = ramp(cap, 0);
    v.push(full.clone());
    v.push(full[..cap - 1].to_vec());
    let mut f0 = full[..cap - 1].to_vec();
    f0.push(0);
    v.push(f0);
    let mut f63 = full[..cap - 1].to_vec();
    f63.push(63);
    v.push(f63);
    if rich {
        v.push(vec![0, 0, 0, 1]);
        v.push(vec![0, 0, 1]);
        v.push(vec![62, 63, 63]);
        v.push(ramp(7, 3));
        v.push(ramp(8, 3));
        let mut z = ramp(cap - 3, 7);
        z.extend([0, 0, 0]);
        v.push(z);
    }
    v
}

fn plain_contents(cap2: usize, norm: bool, rich: bool) -> Vec<Content> {
    let a = bh_strings(64, rich);
    let b = bh_strings(cap2, false);
    let mut out = vec![];
    for &log in &[0u8, 1, 30] {
        for (i, x) in a.iter().enumerate() {
            for (j, y) in b.iter().enumerate() {
                // all block hash 1 strings with three partners; all block hash 2 strings with the first three bh1
                if j < 3 || i < 3 || (i + j) % 11 == 0 {
                    if log != 1 || (i + j) % 3 == 0 {
                        out.push((log, x.clone(), y.clone()));
                    }
                }
            }
        }
    }
    if norm {
        for c in out.iter_mut() {
            c.1 = refmodel::normalize(&c.1);
            c.2 = refmodel::normalize(&c.2);
        }
    }
    out.sort();
    out.dedup();
    out
}

/// Dual corpus: groups sharing a normalised part with different raw runs in
/// block hash 1 only, block hash 2 only, both — plus plain differences.
fn dual_contents(cap2: usize) -> Vec<Content> {
    let mut out = vec![];
    let runs = [3usize, 4, 5, 8, 9];
    for &log in &[0u8, 30] {
        for &r1 in &runs {
            for &r2 in &runs {
                let mut a = vec![9u8];
                a.extend(vec![0u8; r1]);
                a.push(11);
                let mut b = vec![63u8; r2];
                b.push(0);
                out.push((log, a.clone(), b.clone()));
                out.push((log, a.clone(), vec![]));
                out.push((log, vec![1, 0], b.clone()));
                // two runs in block hash 1
                let mut a2 = a.clone();
                a2.extend(vec![5u8; r2]);
                out.push((log, a2, vec![0]));
            }
        }
        for x in bh_strings(64, false).into_iter().take(14) {
            out.push((log, x.clone(), vec![]));
            out.push((log, vec![], x.iter().copied().take(cap2).collect()));
        }
    }
    // families that share a normalized part and differ only in the run data, up to run data that uses EVERY entry
    // (a block hash made of maximal runs leaves no terminator in its run-length block)
    let runs_of = |n_runs: usize, len: usize| -> Vec<u8> { (0..n_runs).flat_map(|r| vec![(1 + r) as u8; len]).collect() };
    for &log in &[0u8, 30] {
        for n in [3usize, 4, 7, 8, 62, 63, 64] {
            out.push((log, vec![7u8; n], vec![]));
            out.push((log, vec![], vec![7u8; n.min(cap2)]));
            out.push((log, vec![7u8; n], vec![7u8; n.min(cap2)]));
        }
        for (n_runs, len) in [(16usize, 3usize), (16, 4), (15, 4), (8, 8), (8, 7), (8, 3), (9, 7), (21, 3)] {
            let x = runs_of(n_runs, len);
            out.push((log, x.clone(), vec![]));
            let y: Vec<u8> = runs_of(n_runs.min(cap2 / len.max(1)), len);
            out.push((log, vec![], y.clone()));
            out.push((log, x.clone(), y));
            // one run of the family one symbol shorter / the last run one symbol longer (when it fits)
            let mut x2 = x.clone();
            x2.remove(0);
            out.push((log, x2, vec![]));
            if x.len() < 64 {
                let mut x3 = x.clone();
                x3.push(*x.last().unwrap());
                out.push((log, x3, vec![]));
            }
        }
    }
    out.sort();
    out.dedup();
    out
}

/// route index of each object = how many earlier objects have the same content
fn routes_of(contents: &[Content]) -> Vec<usize> {
    (0..contents.len()).map(|i| contents[..i].iter().filter(|c| **c == contents[i]).count()).collect()
}

struct Table {
    ty: usize,
    contents: Vec<Content>,
    routes: Vec<usize>,
    /// cmp(i, j) as computed by the library
    cmp: Vec<Vec<Ordering>>,
}

fn ref_order_plain(a: &Content, b: &Content) -> Ordering {
    refmodel::order(a.0, &a.1, &a.2, b.0, &b.1, &b.2)
}
fn norm_of(c: &Content) -> Content {
    (c.0, refmodel::normalize(&c.1), refmodel::normalize(&c.2))
}

fn pair_check<T: Eq + Ord + std::hash::Hash>(
    ty: usize,
    x: &T,
    y: &T,
    cx: &Content,
    cy: &Content,
) -> Result<Ordering, String> {
    let same_text = cx == cy;
    let eq = guarded(|| x == y)?;
    if eq != same_text || guarded(|| y == x)? != same_text || guarded(|| x != y)? == same_text {
        return Err(format!("== is {} but the texts are {}", eq, if same_text { "equal" } else { "different" }));
    }
    if same_text && hash_stream(x) != hash_stream(y) {
        return Err("equal objects with different Hash output".into());
    }
    let c = guarded(|| x.cmp(y))?;
    let rc = guarded(|| y.cmp(x))?;
    if c != rc.reverse() {
        return Err(format!("cmp not antisymmetric: {:?} vs {:?}", c, rc));
    }
    if (c == Ordering::Equal) != same_text {
        return Err(format!("cmp == {:?} but == is {}", c, eq));
    }
    if x.partial_cmp(y) != Some(c) || (x < y) != (c == Ordering::Less) || (x > y) != (c == Ordering::Greater) || (x <= y) != (c != Ordering::Greater) {
        return Err("partial_cmp / comparison operators disagree with cmp".into());
    }
    if ty < 4 {
        let r = ref_order_plain(cx, cy);
        if c != r {
            return Err(format!("cmp gives {:?}, the documented order gives {:?}", c, r));
        }
    } else {
        let (nx, ny) = (norm_of(cx), norm_of(cy));
        if nx != ny {
            let r = ref_order_plain(&nx, &ny);
            if c != r {
                return Err(format!("dual cmp gives {:?}, the normalized parts order as {:?}", c, r));
            }
        }
    }
    Ok(c)
}

macro_rules! build_plain {
    ($ty:ty, $c:expr) => {
        $c.iter().map(|c| <$ty>::new_from_internals_near_raw(c.0, &c.1, &c.2)).collect::<Vec<$ty>>()
    };
}

/// The same contents built through a route that re-uses a previously used
/// ("dirty") object: equal text must still mean ==, equal Hash and cmp Equal.
/// number of re-use routes available for a type
fn n_routes(ty: usize) -> usize {
    match ty {
        0 => 3, // successful narrowing into a dirty short; failed narrowing into the object; dual expansion into a dirty raw
        1 => 2, // widening into a dirty long; dual expansion into a dirty long raw
        2 => 2, // successful narrowing; failed narrowing into the object
        3 => 1, // widening into a dirty long
        _ => 2, // init_from_raw_form on two kinds of dirty duals
    }
}
fn reuse_route(ty: usize, c: &Content) -> Option<Content> {
    match ty {
        1 | 3 if c.2.len() > 32 => None,
        _ => Some(c.clone()),
    }
}
/// a long hash whose block hash 2 does not fit the short form (its block hash 1 is long and "late" in the order)
fn too_long_for_short() -> (u8, Vec<u8>, Vec<u8>) {
    (30, ramp(64, 7), ramp(40, 3))
}
fn build_reused_rs(c: &Content, route: usize) -> RawFuzzyHash {
    match route {
        1 => {
            let mut d = RawFuzzyHash::new_from_internals_near_raw(30, &[63; 64], &[63; 32]);
            LongRawFuzzyHash::new_from_internals_near_raw(c.0, &c.1, &c.2).try_into_mut_short(&mut d).unwrap();
            d
        }
        2 => {
            let mut d = RawFuzzyHash::new_from_internals_near_raw(c.0, &c.1, &c.2);
            let big = too_long_for_short();
            let r = LongRawFuzzyHash::new_from_internals_near_raw(big.0, &big.1, &big.2).try_into_mut_short(&mut d);
            assert!(r.is_err());
            d
        }
        _ => {
            let mut d = RawFuzzyHash::new_from_internals_near_raw(30, &ramp(64, 9), &ramp(32, 9));
            DualFuzzyHash::new_from_internals_near_raw(c.0, &c.1, &c.2).into_mut_raw_form(&mut d);
            d
        }
    }
}
fn build_reused_rl(c: &Content, route: usize) -> LongRawFuzzyHash {
    match route {
        1 if c.2.len() <= 32 => {
            let mut d = LongRawFuzzyHash::new_from_internals_near_raw(30, &[63; 64], &[63; 64]);
            RawFuzzyHash::new_from_internals_near_raw(c.0, &c.1, &c.2).into_mut_long_form(&mut d);
            d
        }
        _ => {
            let mut d = LongRawFuzzyHash::new_from_internals_near_raw(30, &ramp(64, 9), &ramp(64, 9));
            LongDualFuzzyHash::new_from_internals_near_raw(c.0, &c.1, &c.2).into_mut_raw_form(&mut d);
            d
        }
    }
}
fn build_reused_ns(c: &Content, route: usize) -> FuzzyHash {
    match route {
        1 => {
            let mut d = FuzzyHash::new_from_internals_near_raw(30, &ramp(64, 3), &ramp(32, 9));
            LongFuzzyHash::new_from_internals_near_raw(c.0, &c.1, &c.2).try_into_mut_short(&mut d).unwrap();
            d
        }
        _ => {
            let mut d = FuzzyHash::new_from_internals_near_raw(c.0, &c.1, &c.2);
            let big = too_long_for_short();
            let r = LongFuzzyHash::new_from_internals_near_raw(big.0, &big.1, &big.2).try_into_mut_short(&mut d);
            assert!(r.is_err());
            d
        }
    }
}
fn build_reused_nl(c: &Content) -> LongFuzzyHash {
    let mut d = LongFuzzyHash::new_from_internals_near_raw(30, &ramp(64, 3), &ramp(64, 9));
    FuzzyHash::new_from_internals_near_raw(c.0, &c.1, &c.2).into_mut_long_form(&mut d);
    d
}
fn build_reused_ds(c: &Content, dirt: usize) -> DualFuzzyHash {
    let dirty_raw = if dirt == 0 {
        RawFuzzyHash::new_from_internals_near_raw(30, &[63; 64], &[63; 32])
    } else {
        let mut a = vec![];
        for k in 0..8u8 {
            a.extend(vec![k + 1; 8]);
        }
        let mut b = vec![];
        for k in 0..4u8 {
            b.extend(vec![k + 40; 8]);
        }
        RawFuzzyHash::new_from_internals_near_raw(7, &a, &b)
    };
    let mut d = DualFuzzyHash::from_raw_form(&dirty_raw);
    d.init_from_raw_form(&RawFuzzyHash::new_from_internals_near_raw(c.0, &c.1, &c.2));
    d
}
fn build_reused_dl(c: &Content, dirt: usize) -> LongDualFuzzyHash {
    let dirty_raw = if dirt == 0 {
        LongRawFuzzyHash::new_from_internals_near_raw(30, &[63; 64], &[63; 64])
    } else {
        let mut a = vec![];
        for k in 0..8u8 {
            a.extend(vec![k + 1; 8]);
        }
        LongRawFuzzyHash::new_from_internals_near_raw(7, &a, &a)
    };
    let mut d = LongDualFuzzyHash::from_raw_form(&dirty_raw);
    d.init_from_raw_form(&LongRawFuzzyHash::new_from_internals_near_raw(c.0, &c.1, &c.2));
    d
}

fn with_objects<R>(ty: usize, contents: &[Content], routes: &[usize], f: &mut dyn FnMut(&dyn Fn(usize, usize) -> Result<Ordering, String>, &dyn Fn(&[usize]) -> Vec<usize>) -> R) -> R {
    macro_rules! go {
        ($objs:expr) => {{
            let objs = $objs;
            // a panic inside ==, cmp or hash is a violation of that pair; a panic while sorting gives an empty result
            let pc = |i: usize, j: usize| guard_case(|| pair_check(ty, &objs[i], &objs[j], &contents[i], &contents[j]));
            let sorter = |perm: &[usize]| {
                guarded(|| {
                    let mut v: Vec<(usize, _)> = perm.iter().map(|&i| (i, objs[i].clone())).collect();
                    v.sort_by(|a, b| a.1.cmp(&b.1));
                    v.into_iter().map(|x| x.0).collect::<Vec<usize>>()
                })
                .unwrap_or_default()
            };
            f(&pc, &sorter)
        }};
    }
    // the corpus is the contents followed by the same contents built through the re-use routes
    // (`contents` may hold duplicates: index i and its duplicate are built through different routes)
    let route_of = |i: usize| -> usize { routes[i] };
    let _ = build_plain!(RawFuzzyHash, &contents[..0]);
    match ty {
        0 => go!((0..contents.len()).map(|i| if route_of(i) == 0 { RawFuzzyHash::new_from_internals_near_raw(contents[i].0, &contents[i].1, &contents[i].2) } else { build_reused_rs(&contents[i], route_of(i)) }).collect::<Vec<_>>()),
        1 => go!((0..contents.len()).map(|i| if route_of(i) == 0 { LongRawFuzzyHash::new_from_internals_near_raw(contents[i].0, &contents[i].1, &contents[i].2) } else { build_reused_rl(&contents[i], route_of(i)) }).collect::<Vec<_>>()),
        2 => go!((0..contents.len()).map(|i| if route_of(i) == 0 { FuzzyHash::new_from_internals_near_raw(contents[i].0, &contents[i].1, &contents[i].2) } else { build_reused_ns(&contents[i], route_of(i)) }).collect::<Vec<_>>()),
        3 => go!((0..contents.len()).map(|i| if route_of(i) == 0 { LongFuzzyHash::new_from_internals_near_raw(contents[i].0, &contents[i].1, &contents[i].2) } else { build_reused_nl(&contents[i]) }).collect::<Vec<_>>()),
        4 => go!((0..contents.len()).map(|i| match route_of(i) { 0 => DualFuzzyHash::new_from_internals_near_raw(contents[i].0, &contents[i].1, &contents[i].2), r => build_reused_ds(&contents[i], r - 1) }).collect::<Vec<_>>()),
        _ => go!((0..contents.len()).map(|i| match route_of(i) { 0 => LongDualFuzzyHash::new_from_internals_near_raw(contents[i].0, &contents[i].1, &contents[i].2), r => build_reused_dl(&contents[i], r - 1) }).collect::<Vec<_>>()),
    }
}

fn cj(c: &Content) -> Value {
    json!({"log": c.0, "bh1": hex(&c.1), "bh2": hex(&c.2), "text": rt::format(c.0, &c.1, &c.2)})
}
fn cparse(v: &Value) -> Option<Content> {
    Some((v["log"].as_u64()? as u8, unhex(v["bh1"].as_str()?), unhex(v["bh2"].as_str()?)))
}

pub fn replay(c: &Value) -> Result<(), String> {
    guard_case(|| replay_unguarded(c))
}

fn replay_unguarded(c: &Value) -> Result<(), String> {
    let ty = TYPES.iter().position(|n| Some(*n) == c["type"].as_str()).ok_or("type")?;
    let objs: Vec<Content> = c["objects"].as_array().ok_or("objects")?.iter().filter_map(cparse).collect();
    let routes: Vec<usize> = match c["routes"].as_array() {
        Some(a) => a.iter().map(|x| x.as_u64().unwrap_or(0) as usize).collect(),
        None => routes_of(&objs),
    };
    let mut res = Ok(());
    with_objects(ty, &objs, &routes, &mut |pc, sorter| {
        res = (|| {
            match c["kind"].as_str() {
                Some("pair") => {
                    pc(0, 1)?;
                }
                Some("triple") => {
                    let (ab, bc, ac) = (pc(0, 1)?, pc(1, 2)?, pc(0, 2)?);
                    if ab != Ordering::Greater && bc != Ordering::Greater && ac == Ordering::Greater {
                        return Err("not transitive: a <= b, b <= c, a > c".to_string());
                    }
                }
                Some("sort") => {
                    let n = objs.len();
                    let p1: Vec<usize> = (0..n).collect();
                    let p2: Vec<usize> = (0..n).rev().collect();
                    let (s1, s2) = (sorter(&p1), sorter(&p2));
                    let t1: Vec<&Content> = s1.iter().map(|&i| &objs[i]).collect();
                    let t2: Vec<&Content> = s2.iter().map(|&i| &objs[i]).collect();
                    if t1 != t2 || s1.len() != n {
                        return Err("sorting two permutations gives different sequences (or panicked)".to_string());
                    }
                }
                Some("construct") => {}
                _ => return Err("bad case".to_string()),
            }
            Ok(())
        })();
    });
    res
}

fn build_table(ty: usize, contents: Vec<Content>, acc: &mut Acc) -> Option<Table> {
    let n = contents.len();
    let routes = routes_of(&contents);
    let mut cmp = vec![vec![Ordering::Equal; n]; n];
    let mut failed = false;
    // building an object must not panic (the contents are all valid): try each one on its own first
    for i in 0..n {
        if let Err(p) = guarded(|| with_objects(ty, &contents[i..=i], &routes[i..=i], &mut |_, _| ())) {
            failed = true;
            acc.violation(
                format!("{} construct {} route {}", TYPES[ty], rt::format(contents[i].0, &contents[i].1, &contents[i].2), routes[i]),
                format!("panic while building a valid object: {}", p),
                json!({"kind":"construct","type":TYPES[ty],"objects":[cj(&contents[i])],"routes":[routes[i]]}),
            );
        }
    }
    if failed {
        return None;
    }
    with_objects(ty, &contents, &routes, &mut |pc, _| {
        for i in 0..n {
            for j in 0..n {
                acc.evaluations += 1;
                acc.nontrivial += 1;
                match pc(i, j) {
                    Ok(c) => {
                        cmp[i][j] = c;
                        acc.bump(&format!("{:?}", c));
                    }
                    Err(e) => {
                        failed = true;
                        acc.violation(
                            format!("{} pair {} | {}", TYPES[ty], rt::format(contents[i].0, &contents[i].1, &contents[i].2), rt::format(contents[j].0, &contents[j].1, &contents[j].2)),
                            e,
                            json!({"kind":"pair","type":TYPES[ty],"objects":[cj(&contents[i]), cj(&contents[j])],"routes":[routes[i], routes[j]]}),
                        );
                    }
                }
            }
        }
    });
    if failed {
        None
    } else {
        Some(Table { ty, contents, routes, cmp })
    }
}

pub fn run(ctx: &Ctx) -> Report {
    let mut rep = Report::new("model_checking");
    let thorough = ctx.tier == Tier::Thorough;
    let tables: Vec<(usize, Vec<Content>)> = (0..6)
        .map(|ty| {
            let cap2 = if ty % 2 == 0 { 32 } else { 64 };
            let mut c = if ty < 4 { plain_contents(cap2, ty >= 2, thorough) } else { dual_contents(cap2) };
            // every applicable content a second time (duals: a third time), to be built through the re-use routes
            let dup: Vec<Content> = c.iter().filter_map(|x| reuse_route(ty, x)).step_by(if ty < 4 { 3 } else { 1 }).collect();
            for r in 0..n_routes(ty) {
                // route r+1 for every (r+1)-th duplicate-able content (route k needs k earlier copies)
                c.extend(dup.iter().step_by(r + 1).cloned());
            }
            (ty, c)
        })
        .collect();
    // all pairs (parallel over types)
    let results: Vec<(Acc, Option<Table>)> = {
        use rayon::prelude::*;
        tables
            .par_iter()
            .map(|(ty, c)| {
                let mut acc = Acc::default();
                acc.sample(json!({"type": TYPES[*ty], "objects": c.len(), "first": cj(&c[c.len() / 2])}));
                let t = build_table(*ty, c.clone(), &mut acc);
                (acc, t)
            })
            .collect()
    };
    let mut good_tables = vec![];
    for (i, (acc, t)) in results.into_iter().enumerate() {
        acc.into_report(&mut rep, &format!("all_pairs_{}", TYPES[i]));
        if let Some(t) = t {
            good_tables.push(t);
        }
    }
    // all triples: transitivity on the library's own cmp table (sub-corpus in quick)
    for t in &good_tables {
        let n = t.contents.len();
        let idx: Vec<usize> = if thorough { (0..n).collect() } else { (0..n).step_by((n / 220).max(1)).collect() };
        let m = idx.len();
        let acc = par_shards(m, |ai, acc| {
            let a = idx[ai];
            for &b in &idx {
                if t.cmp[a][b] == Ordering::Greater {
                    acc.evaluations += m as u64;
                    acc.nontrivial += m as u64;
                    continue;
                }
                for &c in &idx {
                    acc.evaluations += 1;
                    acc.nontrivial += 1;
                    if t.cmp[b][c] != Ordering::Greater && t.cmp[a][c] == Ordering::Greater {
                        acc.violation(
                            format!("{} triple not transitive", TYPES[t.ty]),
                            "a <= b and b <= c but a > c".into(),
                            json!({"kind":"triple","type":TYPES[t.ty],"objects":[cj(&t.contents[a]), cj(&t.contents[b]), cj(&t.contents[c])],"routes":[t.routes[a], t.routes[b], t.routes[c]]}),
                        );
                    }
                }
            }
            if ai == 0 {
                acc.sample(json!({"kind":"triple","type":TYPES[t.ty],"sub_corpus": m}));
            }
        });
        acc.into_report(&mut rep, &format!("all_triples_{}", TYPES[t.ty]));
        // sorting two permutations of the corpus gives the same sequence, which is non-decreasing
        let mut acc = Acc::default();
        acc.evaluations += 1;
        acc.nontrivial += 1;
        with_objects(t.ty, &t.contents, &t.routes, &mut |_, sorter| {
            let p1: Vec<usize> = (0..n).collect();
            let mut p2: Vec<usize> = (0..n).rev().collect();
            p2.rotate_left(n / 3);
            let (s1, s2) = (sorter(&p1), sorter(&p2));
            let t1: Vec<&Content> = s1.iter().map(|&i| &t.contents[i]).collect();
            let t2: Vec<&Content> = s2.iter().map(|&i| &t.contents[i]).collect();
            let mut bad = t1 != t2 || s1.len() != n;
            for w in s1.windows(2) {
                if t.cmp[w[0]][w[1]] == Ordering::Greater {
                    bad = true;
                }
            }
            if bad {
                acc.violation(
                    format!("{} sort", TYPES[t.ty]),
                    "sorting two permutations gives different or non-monotone sequences".into(),
                    json!({"kind":"sort","type":TYPES[t.ty],"objects": t.contents.iter().map(cj).collect::<Vec<_>>(),"routes": t.routes}),
                );
            }
        });
        acc.into_report(&mut rep, &format!("sort_{}", TYPES[t.ty]));
    }
    rep.set("exhaustive", true);
    rep.set(
        "rule",
        "per type a corpus of objects built to stress the order (block hashes differing only by trailing symbol-0 characters, proper prefixes, first difference 0 / 1 / 63, lengths near 0 and the capacity, three block sizes; a third of the objects a second time built through a route that re-uses a dirty destination (into_mut_long_form / try_into_mut_short into a previously used object; a *failed* narrowing attempted into the object; dual expansion into_mut_raw_form into a previously used raw object; for duals init_from_raw_form on two kinds of previously used objects); dual hashes in groups sharing a normalized part with different raw runs in block hash 1 only / 2 only / both): ALL ordered pairs (== <=> equal text, equal => equal Hash stream, cmp antisymmetric, Equal <=> ==, operators consistent, cmp == documented order; duals with different normalized parts order as those parts) and ALL triples of the corpus (thorough) or of a strided sub-corpus (quick) for transitivity on the library's own cmp results; sorting two permutations.  Pairs / triples are distinct by construction.",
    );
    rep
}
