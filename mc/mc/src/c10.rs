//! C10 — score laws and the candidate / window pre-filter that clustering relies on.

use crate::c02::{cj, cparse, Content};
use crate::common::*;
use crate::corpus::ramp;
use refmodel::text as rt;
use serde_json::{json, Value};
use ssdeep::{FuzzyHash, FuzzyHashCompareTarget, LongFuzzyHash};
use std::collections::BTreeSet;

/// reference: 7-gram windows tagged with the effective log block size
fn ref_windows(c: &Content) -> BTreeSet<(u8, Vec<u8>)> {
    let mut s = BTreeSet::new();
    for w in c.1.windows(7) {
        s.insert((c.0, w.to_vec()));
    }
    for w in c.2.windows(7) {
        s.insert((c.0 + 1, w.to_vec()));
    }
    s
}

/// Per-hash checks: window iterators against the definitions.
fn check_single(c: &Content) -> Result<Vec<u64>, String> {
    macro_rules! windows {
        ($h:expr) => {{
            let h = $h;
            let mut idx = vec![];
            for (k, (bh, eff)) in [(h.block_hash_1(), c.0 as u64), (h.block_hash_2(), c.0 as u64 + 1)].iter().enumerate() {
                let slices: Vec<&[u8]> = if k == 0 { h.block_hash_1_windows().collect() } else { h.block_hash_2_windows().collect() };
                let nums: Vec<u64> = if k == 0 { h.block_hash_1_numeric_windows().collect() } else { h.block_hash_2_numeric_windows().collect() };
                let inds: Vec<u64> = if k == 0 { h.block_hash_1_index_windows().collect() } else { h.block_hash_2_index_windows().collect() };
                let n = bh.len().saturating_sub(6);
                let (ln, li) = if k == 0 {
                    (h.block_hash_1_numeric_windows().len(), h.block_hash_1_index_windows().len())
                } else {
                    (h.block_hash_2_numeric_windows().len(), h.block_hash_2_index_windows().len())
                };
                let hint = if k == 0 { h.block_hash_1_index_windows().size_hint() } else { h.block_hash_2_index_windows().size_hint() };
                // the exact-size contract also holds after consuming some items, and the iterators are fused
                let mut it = if k == 0 { h.block_hash_1_index_windows() } else { h.block_hash_2_index_windows() };
                let mut left = n;
                while left > 0 {
                    if it.len() != left || it.size_hint() != (left, Some(left)) {
                        return Err(format!("index window iterator reports len {} with {} items left", it.len(), left));
                    }
                    it.next();
                    left -= 1;
                }
                if it.next().is_some() || it.next().is_some() || it.len() != 0 {
                    return Err("index window iterator yields items after its end".into());
                }
                // iterator adapters must see the same sequence: nth / skip / step_by / last / count
                for kk in 0..=8usize {
                    let (a1, a2, a3): (Option<u64>, Vec<u64>, Vec<u64>) = if k == 0 {
                        (h.block_hash_1_index_windows().nth(kk), h.block_hash_1_index_windows().skip(kk).collect(), h.block_hash_1_numeric_windows().step_by(kk + 1).collect())
                    } else {
                        (h.block_hash_2_index_windows().nth(kk), h.block_hash_2_index_windows().skip(kk).collect(), h.block_hash_2_numeric_windows().step_by(kk + 1).collect())
                    };
                    let e3: Vec<u64> = nums.iter().copied().step_by(kk + 1).collect();
                    if a1 != inds.get(kk).copied() || a2[..] != inds[kk.min(inds.len())..] || a3 != e3 {
                        return Err(format!("window iterator adapters (nth / skip / step_by with {}) disagree with plain iteration", kk));
                    }
                    // nth in the middle of an iteration
                    let mut mid = if k == 0 { h.block_hash_1_numeric_windows() } else { h.block_hash_2_numeric_windows() };
                    mid.next();
                    if mid.nth(kk) != nums.get(kk + 1).copied() || mid.next() != nums.get(kk + 2).copied() {
                        return Err(format!("numeric window iterator: next(); nth({}); next() disagrees with plain iteration", kk));
                    }
                }
                let (cnt, lst) = if k == 0 {
                    (h.block_hash_1_index_windows().count(), h.block_hash_1_index_windows().last())
                } else {
                    (h.block_hash_2_index_windows().count(), h.block_hash_2_index_windows().last())
                };
                if cnt != n || lst != inds.last().copied() {
                    return Err("window iterator count() / last() disagree with plain iteration".into());
                }
                if slices.len() != n || nums.len() != n || inds.len() != n || ln != n || li != n || hint != (n, Some(n)) {
                    return Err(format!("window iterator lengths: slices {} numeric {} index {} len() {} / {} expected {}", slices.len(), nums.len(), inds.len(), ln, li, n));
                }
                for i in 0..n {
                    if slices[i] != &bh[i..i + 7] {
                        return Err(format!("block_hash_{}_windows()[{}] is not the slice at {}", k + 1, i, i));
                    }
                    let v = refmodel::numeric_window(&bh[i..i + 7]);
                    if nums[i] != v {
                        return Err(format!("numeric window {} of block hash {} = {:#x} expected {:#x}", i, k + 1, nums[i], v));
                    }
                    if inds[i] != (v | (eff << 42)) {
                        return Err(format!("index window {} of block hash {} = {:#x} expected {:#x} (effective log {})", i, k + 1, inds[i], v | (eff << 42), eff));
                    }
                    idx.push(inds[i]);
                }
            }
            idx
        }};
    }
    let l = guarded(|| LongFuzzyHash::new_from_internals_near_raw(c.0, &c.1, &c.2))?;
    let idx_long: Vec<u64> = guarded(|| -> Result<Vec<u64>, String> { Ok(windows!(&l)) })??;
    if c.2.len() <= 32 {
        let s = guarded(|| FuzzyHash::new_from_internals_near_raw(c.0, &c.1, &c.2))?;
        let idx_short: Vec<u64> = guarded(|| -> Result<Vec<u64>, String> { Ok(windows!(&s)) })??;
        if idx_short != idx_long {
            return Err("short and long forms give different index windows".into());
        }
    }
    Ok(idx_long)
}

/// Pair laws.
fn check_pair(a: &Content, b: &Content, ia: &[u64], ib: &[u64]) -> Result<(u32, bool), String> {
    // a panic escaping from the library through any call below is a violation of this case, not a crash
    guard_case(|| check_pair_unguarded(a, b, ia, ib))
}

fn check_pair_unguarded(a: &Content, b: &Content, ia: &[u64], ib: &[u64]) -> Result<(u32, bool), String> {
    let la = LongFuzzyHash::new_from_internals_near_raw(a.0, &a.1, &a.2);
    let lb = LongFuzzyHash::new_from_internals_near_raw(b.0, &b.1, &b.2);
    let sab = guarded(|| la.compare(&lb))?;
    let sba = guarded(|| lb.compare(&la))?;
    if sab > 100 {
        return Err(format!("score {} out of 0..=100", sab));
    }
    if sab != sba {
        return Err(format!("not symmetric: compare(a,b) = {} compare(b,a) = {}", sab, sba));
    }
    if guarded(|| la.compare(&la))? != 100 {
        return Err("compare(a,a) != 100".into());
    }
    let far = (a.0 as i32 - b.0 as i32).abs() > 1;
    if far && sab != 0 {
        return Err(format!("block sizes differ by more than a factor of two but score = {}", sab));
    }
    // the targets are re-used objects: each held the other hash first
    let mut ta = FuzzyHashCompareTarget::from(&lb);
    guarded(|| ta.init_from(&la))?;
    let mut tb = FuzzyHashCompareTarget::from(&la);
    guarded(|| tb.init_from(&lb))?;
    let cand = guarded(|| ta.is_comparison_candidate(&lb))?;
    let cand_rev = guarded(|| tb.is_comparison_candidate(&la))?;
    if cand != cand_rev {
        return Err(format!("candidate test not symmetric: {} vs {}", cand, cand_rev));
    }
    if guarded(|| ta.compare(&lb))? != sab {
        return Err("target.compare differs from hash.compare".into());
    }
    let equal = a == b;
    if (sab != 0) != (equal || cand) {
        return Err(format!("score = {} but equal = {} and candidate = {}", sab, equal, cand));
    }
    // candidate <=> index window sets intersect <=> reference windows intersect
    let sa: BTreeSet<u64> = ia.iter().copied().collect();
    let lib_intersect = ib.iter().any(|w| sa.contains(w));
    let ra = ref_windows(a);
    let ref_intersect = ref_windows(b).iter().any(|w| ra.contains(w));
    if cand != lib_intersect || cand != ref_intersect {
        return Err(format!(
            "candidate = {}, index windows intersect = {}, shared 7-symbol window at the same effective block size = {}",
            cand, lib_intersect, ref_intersect
        ));
    }
    // relation-specific candidate entry points
    let d = a.0 as i32 - b.0 as i32;
    let spec = match d {
        0 => Some(guarded(|| ta.is_comparison_candidate_near_eq(&lb))?),
        -1 => Some(guarded(|| ta.is_comparison_candidate_near_lt(&lb))?),
        1 => Some(guarded(|| ta.is_comparison_candidate_near_gt(&lb))?),
        _ => None,
    };
    if let Some(sp) = spec {
        if sp != cand {
            return Err("is_comparison_candidate_near_* disagrees with is_comparison_candidate".into());
        }
    }
    // short form, when representable
    if a.2.len() <= 32 && b.2.len() <= 32 {
        let sa = FuzzyHash::new_from_internals_near_raw(a.0, &a.1, &a.2);
        let sb = FuzzyHash::new_from_internals_near_raw(b.0, &b.1, &b.2);
        if guarded(|| sa.compare(&sb))? != sab || guarded(|| ta.is_comparison_candidate(&sb))? != cand {
            return Err("short form gives a different score / candidate answer".into());
        }
    }
    Ok((sab, cand))
}

pub fn replay(c: &Value) -> Result<(), String> {
    let a = cparse(&c["a"]).ok_or("a")?;
    let ia = check_single(&a)?;
    if c["b"].is_null() {
        return Ok(());
    }
    let b = cparse(&c["b"]).ok_or("b")?;
    let ib = check_single(&b)?;
    check_pair(&a, &b, &ia, &ib).map(|_| ())
}

/// normalized block hash strings with shared windows at various offsets
fn strings() -> Vec<Vec<u8>> {
    let r = ramp(22, 0);
    let j = ramp(16, 40);
    let mut v: Vec<Vec<u8>> = vec![
        vec![],
        ramp(6, 0),
        ramp(7, 0),
        ramp(8, 0),
        r.clone(),
        r[3..].to_vec(),
        r[..10].to_vec(),
        j.clone(),
        {
            let mut x = j[..9].to_vec();
            x.extend_from_slice(&r[5..12]);
            x
        },
        {
            let mut x = r[8..15].to_vec();
            x.extend_from_slice(&j[..5]);
            x
        },
        {
            let mut x = j[..4].to_vec();
            x.extend_from_slice(&r[9..15]); // only 6 shared: near miss
            x.extend_from_slice(&j[8..12]);
            x
        },
        {
            let mut x = r.clone();
            x[11] = 63;
            x
        },
        vec![0, 0, 0, 63, 63, 63, 0, 0, 0, 63, 63, 63, 0, 0, 0],
        vec![0, 0, 0, 63, 63, 63, 0, 0, 0, 1],
        vec![63, 63, 63, 0, 0, 0, 63, 63, 63, 0],
        ramp(32, 1),
        ramp(33, 1),
        ramp(64, 0),
        ramp(64, 2),
        {
            let mut x = ramp(57, 20);
            x.extend_from_slice(&r[0..7]);
            x
        },
    ];
    v.sort();
    v.dedup();
    v
}

pub fn run(ctx: &Ctx) -> Report {
    let mut rep = Report::new("model_checking");
    let thorough = ctx.tier == Tier::Thorough;
    // the window encoding itself: all 7-grams over {0, 1, 63}
    let grams = crate::corpus::all_strings(&[0, 1, 63], 7).into_iter().filter(|s| s.len() == 7 && refmodel::is_normalized(s)).collect::<Vec<_>>();
    let acc = par_shards(grams.len(), |i, acc| {
        acc.evaluations += 1;
        acc.nontrivial += 1;
        for log in [0u8, 17, 30] {
            let c: Content = (log, grams[i].clone(), grams[(i * 7 + 3) % grams.len()].clone());
            if let Err(e) = check_single(&c) {
                acc.violation(format!("windows of {}", rt::format(c.0, &c.1, &c.2)), e, json!({"a": cj(&c), "b": null}));
            }
        }
        if i == 5 {
            acc.sample(json!({"seven_gram": hex(&grams[i])}));
        }
    });
    acc.into_report(&mut rep, "window_encoding_all_normalized_7grams_over_3_symbols");
    // injectivity of the numeric encoding on that set
    {
        let mut seen = std::collections::BTreeMap::new();
        for g in &grams {
            let h = LongFuzzyHash::new_from_internals_near_raw(0, g, &[]);
            let w: Vec<u64> = h.block_hash_1_numeric_windows().collect();
            if let Some(prev) = seen.insert(w[0], g.clone()) {
                rep.violation(Violation {
                    signature: "numeric window collision".into(),
                    what: format!("{} and {} encode to the same numeric window", hex(&prev), hex(g)),
                    case: json!({"a": cj(&(0, g.clone(), vec![])), "b": null}),
                });
            }
        }
    }

    // hash corpus: logs x (string, string)
    let strs = strings();
    let logs: Vec<u8> = if thorough { vec![0, 1, 2, 3, 4, 5, 6, 15, 16, 28, 29, 30] } else { vec![0, 1, 2, 3, 4, 5, 15, 28, 29, 30] };
    let mut hashes: Vec<Content> = vec![];
    for &l in &logs {
        for (i, a) in strs.iter().enumerate() {
            for (j, b) in strs.iter().enumerate() {
                let keep = if thorough { true } else { (i + 2 * j) % 3 == 0 || i == j };
                if keep {
                    hashes.push((l, a.clone(), b.clone()));
                }
            }
        }
    }
    hashes.sort();
    hashes.dedup();
    let n = hashes.len();
    // per-hash window checks first
    let singles: Vec<Result<Vec<u64>, String>> = {
        use rayon::prelude::*;
        hashes.par_iter().map(check_single).collect()
    };
    let mut idx: Vec<Vec<u64>> = Vec::with_capacity(n);
    let mut acc = Acc::default();
    for (i, r) in singles.into_iter().enumerate() {
        acc.evaluations += 1;
        acc.nontrivial += 1;
        match r {
            Ok(v) => idx.push(v),
            Err(e) => {
                acc.violation(format!("windows of {}", rt::format(hashes[i].0, &hashes[i].1, &hashes[i].2)), e, json!({"a": cj(&hashes[i]), "b": null}));
                idx.push(vec![]);
            }
        }
    }
    let singles_ok = acc.violation_count == 0;
    acc.into_report(&mut rep, "window_iterators_per_hash");
    if singles_ok {
        let acc = par_shards(n, |i, acc| {
            for j in 0..n {
                acc.evaluations += 1;
                acc.nontrivial += 1;
                match check_pair(&hashes[i], &hashes[j], &idx[i], &idx[j]) {
                    Ok((s, cand)) => {
                        acc.bump(&format!("score={:03}", s / 10 * 10));
                        acc.count(if cand { "candidate_true" } else { "candidate_false" }, 1);
                    }
                    Err(e) => acc.violation(
                        format!("pair {} | {}", rt::format(hashes[i].0, &hashes[i].1, &hashes[i].2), rt::format(hashes[j].0, &hashes[j].1, &hashes[j].2)),
                        e,
                        json!({"a": cj(&hashes[i]), "b": cj(&hashes[j])}),
                    ),
                }
            }
            if i == n / 2 {
                acc.sample(json!({"a": cj(&hashes[i]), "b": cj(&hashes[n / 3])}));
            }
        });
        acc.into_report(&mut rep, "all_pairs_of_hash_corpus");
    }
    // all 31 x 31 block size combinations with small contents
    let small: Vec<(Vec<u8>, Vec<u8>)> = vec![(ramp(9, 0), ramp(8, 3)), (ramp(8, 3), ramp(9, 0)), (ramp(9, 0), vec![]), (vec![], ramp(8, 3))];
    let acc = par_shards(31 * 31, |i, acc| {
        let (la, lb) = ((i / 31) as u8, (i % 31) as u8);
        for x in &small {
            for y in &small {
                let a: Content = (la, x.0.clone(), x.1.clone());
                let b: Content = (lb, y.0.clone(), y.1.clone());
                acc.evaluations += 1;
                acc.nontrivial += 1;
                let r = check_single(&a).and_then(|ia| check_single(&b).and_then(|ib| check_pair(&a, &b, &ia, &ib)));
                match r {
                    Ok((s, _)) => acc.bump(if s == 0 { "zero" } else { "non-zero" }),
                    Err(e) => acc.violation(format!("sizes {} {} {} | {}", la, lb, rt::format(a.0, &a.1, &a.2), rt::format(b.0, &b.1, &b.2)), e, json!({"a": cj(&a), "b": cj(&b)})),
                }
            }
        }
    });
    acc.into_report(&mut rep, "all_31x31_block_size_combinations_small_contents");
    rep.set("hash_corpus_size", n);
    rep.set("exhaustive", true);
    rep.set(
        "rule",
        "normalized hashes (short and long forms) built from 20 block-hash strings with shared 7-symbol windows at various offsets, near-misses of 6, single edits, low-entropy strings and capacity lengths, at logs {0..5, 15, 28, 29, 30} (a third of the string pairs; thorough: all pairs of strings, logs add 6, 16): ALL ordered pairs — score in 0..=100, symmetric, 100 against itself, 0 when far, non-zero <=> equal or candidate, candidate symmetric and <=> library index-window sets intersect <=> reference 7-gram sets tagged with the effective block size intersect; per hash: every window iterator against the definition (slice, numeric = base-64 value, index = numeric | eff_log << 42 with eff_log = log+1 for block hash 2, 31 at the largest size), lengths and size hints; all 31x31 block-size combinations with small contents; all normalized 7-grams over {0,1,63} for the encoding and its injectivity.",
    );
    rep
}
