//! C11 — no safe operation ever yields an invalid hash object.
//!
//! Explicit-state search over a *register file* holding one real object per
//! type.  Actions are safe public operations (parse, construct from internals
//! with in- and out-of-contract arguments, normalise, convert between
//! registers whose destinations keep their previous content, dual compress /
//! expand, comparison-target and position-array initialisation, a generator
//! result).  Invariant in every state: every register passes its validity
//! check (library's and the reference predicate); structural equality and
//! Debug formatting never panic.

use crate::common::*;
use crate::corpus::ramp;
use crate::explore;
use crate::hashobj::*;
use serde_json::{json, Value};
use ssdeep::internal_comparison::{BlockHashPositionArray, BlockHashPositionArrayData, BlockHashPositionArrayImpl};
use ssdeep::{
    DualFuzzyHash, FuzzyHash, FuzzyHashCompareTarget, Generator, LongDualFuzzyHash, LongFuzzyHash, LongRawFuzzyHash,
    RawFuzzyHash,
};
use stateright::{Model, Property};
use std::hash::{Hash, Hasher};
use std::sync::atomic::{AtomicU64, Ordering as AO};

static TRANSITIONS: AtomicU64 = AtomicU64::new(0);
static EXPECTED_PANICS: AtomicU64 = AtomicU64::new(0);

#[derive(Clone, Debug)]
pub struct Regs {
    rs: RawFuzzyHash,
    rl: LongRawFuzzyHash,
    ns: FuzzyHash,
    nl: LongFuzzyHash,
    ds: DualFuzzyHash,
    dl: LongDualFuzzyHash,
    ct: FuzzyHashCompareTarget,
    /// the position array is not `Clone`: it is rebuilt from its operation history
    pa_ops: Vec<PaOp>,
    bad: Option<String>,
}

#[derive(Clone, Debug, PartialEq, Eq)]
pub enum PaOp {
    Init(Vec<u8>),
    Clear,
}

fn build_pa(ops: &[PaOp]) -> Result<BlockHashPositionArray, String> {
    let mut pa = BlockHashPositionArray::new();
    for op in ops {
        match op {
            PaOp::Init(v) => guarded(|| pa.init_from(v))?,
            PaOp::Clear => guarded(|| pa.clear())?,
        }
    }
    Ok(pa)
}

impl Regs {
    fn new() -> Self {
        Regs {
            rs: RawFuzzyHash::new(),
            rl: LongRawFuzzyHash::new(),
            ns: FuzzyHash::new(),
            nl: LongFuzzyHash::new(),
            ds: DualFuzzyHash::new(),
            dl: LongDualFuzzyHash::new(),
            ct: FuzzyHashCompareTarget::new(),
            pa_ops: vec![],
            bad: None,
        }
    }
    fn key(&self) -> String {
        // Debug formatting runs the library's validity checks: a panic there must not kill the explorer
        guarded(|| {
            let pa = build_pa(&self.pa_ops).map(|p| format!("{:?}", p)).unwrap_or_else(|e| e);
            format!(
                "{:?}|{:?}|{:?}|{:?}|{:?}|{:?}|{:?}|{}|{}",
                self.rs, self.rl, self.ns, self.nl, self.ds, self.dl, self.ct, pa, self.bad.is_some()
            )
        })
        .unwrap_or_else(|p| format!("PANIC while rendering the registers: {} bad={}", p, self.bad.is_some()))
    }
}
impl PartialEq for Regs {
    fn eq(&self, o: &Self) -> bool {
        self.key() == o.key()
    }
}
impl Eq for Regs {}
impl Hash for Regs {
    fn hash<H: Hasher>(&self, h: &mut H) {
        self.key().hash(h)
    }
}

/// The invariant.  `Err` describes the first failing register.
pub fn invariant(s: &Regs) -> Result<(), String> {
    // a panic escaping from the library through any call below is a violation of this case, not a crash
    guard_case(|| invariant_unguarded(s))
}

fn invariant_unguarded(s: &Regs) -> Result<(), String> {
    if let Some(b) = &s.bad {
        return Err(b.clone());
    }
    macro_rules! plain {
        ($r:expr, $n:expr) => {{
            let r = &$r;
            let v = guarded(|| r.is_valid()).map_err(|p| format!("{}: is_valid panicked: {}", $n, p))?;
            let dbg = guarded(|| format!("{:?}", r)).map_err(|p| format!("{}: Debug panicked: {}", $n, p))?;
            if !v || !r.ref_valid() {
                return Err(format!("{} register is invalid: {}", $n, dbg));
            }
            if !guarded(|| r.full_eq(r)).map_err(|p| format!("{}: full_eq panicked: {}", $n, p))? {
                return Err(format!("{}: full_eq not reflexive", $n));
            }
        }};
    }
    plain!(s.rs, "RawFuzzyHash");
    plain!(s.rl, "LongRawFuzzyHash");
    plain!(s.ns, "FuzzyHash");
    plain!(s.nl, "LongFuzzyHash");
    macro_rules! dual {
        ($r:expr, $n:expr) => {{
            let r = &$r;
            let v = guarded(|| r.is_valid()).map_err(|p| format!("{}: is_valid panicked: {}", $n, p))?;
            let dbg = guarded(|| format!("{:?}", r)).map_err(|p| format!("{}: Debug panicked: {}", $n, p))?;
            if !v {
                return Err(format!("{} register is invalid: {}", $n, dbg));
            }
            // canonical RLE data: decompressing and compressing again gives the same object
            let raw = guarded(|| r.to_raw_form()).map_err(|p| format!("{}: to_raw_form panicked: {}", $n, p))?;
            if !raw.is_valid() || !raw.ref_valid() || !r.as_normalized().ref_valid() {
                return Err(format!("{}: raw / normalized part invalid: {}", $n, dbg));
            }
        }};
    }
    dual!(s.ds, "DualFuzzyHash");
    dual!(s.dl, "LongDualFuzzyHash");
    let ctv = guarded(|| s.ct.is_valid()).map_err(|p| format!("CompareTarget: is_valid panicked: {}", p))?;
    guarded(|| format!("{:?}", s.ct)).map_err(|p| format!("CompareTarget: Debug panicked: {}", p))?;
    if !ctv || !guarded(|| s.ct.full_eq(&s.ct))? {
        return Err(format!("FuzzyHashCompareTarget register is invalid: {:?}", s.ct));
    }
    let pa = build_pa(&s.pa_ops).map_err(|p| format!("PositionArray: operation panicked: {}", p))?;
    if !guarded(|| pa.is_valid())? {
        return Err(format!("BlockHashPositionArray register is invalid: {:?}", pa));
    }
    Ok(())
}

// ------------------------------------------------------------------ action menu

fn texts() -> Vec<Vec<u8>> {
    let b = |v: Vec<u8>| -> Vec<u8> { v.iter().map(|&x| refmodel::B64[x as usize]).collect() };
    let mut t2 = b"6:".to_vec();
    t2.extend(b(ramp(64, 0)));
    t2.push(b':');
    t2.extend(b(ramp(32, 5)));
    let mut t3 = b"6:".to_vec();
    t3.extend(vec![b'A'; 64]);
    t3.push(b':');
    t3.extend(vec![b'/'; 64]);
    let mut t4 = b"3221225472:".to_vec();
    t4.extend(b(ramp(40, 0)));
    t4.push(b':');
    t4.extend(b(ramp(40, 9)));
    let mut t7 = b"3:".to_vec();
    t7.extend(vec![b'A'; 70]);
    t7.extend(b":".iter());
    t7.extend(vec![b'B'; 36]);
    // a run that ends inside the capacity followed by ordinary characters: raw 68 / 36 symbols, normalized 63 / 31
    let mut t8 = b"3:AAAAAAAA".to_vec();
    t8.extend(b(ramp(60, 1)));
    t8.extend(b":".iter());
    let mut t9 = b"3:B:AAAAAAAA".to_vec();
    t9.extend(b(ramp(28, 1)));
    vec![
        b"3::".to_vec(),
        b"3:AAAABBBB:CCCCDDDD".to_vec(),
        t2,
        t3,
        t4,
        b"12:AAAAAAAAB:///////,x".to_vec(),
        b"4:A:B".to_vec(),
        t7,
        t8,
        t9,
    ]
}

#[derive(Clone, Copy, Debug, PartialEq, Eq, Hash)]
pub enum Act {
    Parse(u8, u8),          // register 0..6, text
    NearRaw(u8, u8),        // plain register 0..4, argument set
    FromInternals(u8, u8),  // plain register, argument set (block size form)
    InitRaw(u8, u8),        // plain register, array argument set (into the existing object)
    NewRaw(u8, u8),         // plain register, array argument set (fresh object)
    DualNearRaw(u8, u8),    // dual register 0..2, argument set
    Normalize(u8),          // register 0..6
    Conv(u8),               // conversion between registers
    Target(u8),             // compare target init
    Pa(u8),                 // position array op
    Gen(u8),                // generator result into a register
}

/// (log or block-size index, bh1, bh2); in- and out-of-contract
fn arg_sets() -> Vec<(u8, Vec<u8>, Vec<u8>)> {
    vec![
        (0, vec![1, 2, 3], vec![4]),
        (0, vec![64], vec![]),
        (0, vec![1, 255], vec![2]),
        (0, vec![1; 65], vec![]),
        (0, vec![], ramp(33, 0)),
        (0, vec![5, 5, 5, 5], vec![]),
        (31, vec![1], vec![1]),
        (30, ramp(64, 0), ramp(32, 0)),
        (0, vec![], vec![9, 9, 9, 9, 9, 9]),
        (0, vec![], vec![1; 65]),
        // over the short capacity in the raw form, but the normalized form and the run data would fit
        (0, vec![], vec![7; 33]),
        (0, vec![], vec![7; 35]),
        (0, vec![], (0..56).map(|k| 1 + (k / 7) as u8).collect()),
        (0, vec![7; 64], vec![7; 64]),
        // every run entry in use (no terminator left in the run data)
        (0, (0..64).map(|k| 1 + (k / 4) as u8).collect(), (0..32).map(|k| 1 + (k / 4) as u8).collect()),
    ]
}
/// array argument sets: (log, bh1 array 64, bh2 array 64 (cut to the type), len1, len2)
fn array_sets() -> Vec<(u8, Vec<u8>, Vec<u8>, u8, u8)> {
    let z = |v: Vec<u8>| {
        let mut a = v;
        a.resize(64, 0);
        a
    };
    let mut dirty_tail = z(vec![1, 2, 3]);
    dirty_tail[10] = 7;
    let mut sym64 = z(vec![1, 64, 3]);
    sym64[1] = 64;
    vec![
        (3, z(vec![1, 2, 3]), z(vec![4, 5]), 3, 2),
        (3, dirty_tail.clone(), z(vec![]), 3, 0),
        (3, z(vec![]), { let mut t = z(vec![1]); t[31] = 1; t }, 0, 1),
        (3, z(ramp(64, 0)), z(vec![]), 65, 0),
        (3, z(vec![]), z(ramp(32, 0)), 0, 33),
        (3, sym64, z(vec![]), 3, 0),
        (3, z(vec![6, 6, 6, 6, 6]), z(vec![]), 5, 0),
        (31, z(vec![1]), z(vec![]), 1, 0),
        (30, z(ramp(64, 0)), z(ramp(32, 0)), 64, 32),
        (3, z(vec![]), z(vec![200, 200]), 0, 0),
    ]
}

const N_CONV: u8 = 24;

pub struct Menu {
    texts: Vec<Vec<u8>>,
    args: Vec<(u8, Vec<u8>, Vec<u8>)>,
    arrays: Vec<(u8, Vec<u8>, Vec<u8>, u8, u8)>,
    actions: Vec<Act>,
}

impl Menu {
    pub fn new(full: bool) -> Self {
        let texts = texts();
        let args = arg_sets();
        let arrays = array_sets();
        let mut actions = vec![];
        for r in 0..6u8 {
            for t in 0..texts.len() as u8 {
                if full || r < 2 || t == 1 || t == 3 || t == 4 || t == 7 || (r >= 4 && (t == 5 || t >= 8)) {
                    actions.push(Act::Parse(r, t));
                }
            }
        }
        for r in 0..4u8 {
            for a in 0..args.len() as u8 {
                if full || a == 0 || a == 7 || a == 5 {
                    actions.push(Act::NearRaw(r, a));
                }
                if full {
                    actions.push(Act::FromInternals(r, a));
                }
            }
            for a in 0..arrays.len() as u8 {
                actions.push(Act::InitRaw(r, a));
                if full {
                    actions.push(Act::NewRaw(r, a));
                }
            }
        }
        for r in 0..2u8 {
            for a in 0..args.len() as u8 {
                if full || a == 5 || a == 8 || a == 7 {
                    actions.push(Act::DualNearRaw(r, a));
                }
            }
        }
        for r in 0..6u8 {
            actions.push(Act::Normalize(r));
        }
        for c in 0..N_CONV {
            actions.push(Act::Conv(c));
        }
        for t in 0..5u8 {
            actions.push(Act::Target(t));
        }
        for p in 0..5u8 {
            actions.push(Act::Pa(p));
        }
        for g in 0..(if full { 7u8 } else { 4 }) {
            actions.push(Act::Gen(g));
        }
        Menu { texts, args, arrays, actions }
    }
}

fn arr<const N: usize>(v: &[u8]) -> [u8; N] {
    let mut a = [0u8; N];
    a.copy_from_slice(&v[..N]);
    a
}

/// Apply one action.  Out-of-contract constructor calls may panic (counted);
/// then the state must be unchanged and still valid.  `None` = no change.
pub fn apply(m: &Menu, s: &Regs, act: Act) -> Option<Regs> {
    // a panic escaping from the library through a call that is not individually guarded is a bad state, not a crash
    match guarded(|| apply_unguarded(m, s, act)) {
        Ok(r) => r,
        Err(p) => {
            let mut b = s.clone();
            b.bad = Some(format!("panic in {:?}: {}", act, p));
            Some(b)
        }
    }
}

fn apply_unguarded(m: &Menu, s: &Regs, act: Act) -> Option<Regs> {
    let mut n = s.clone();
    let panicked = |p: String, in_contract: bool, what: &str, n: &Regs| -> Option<Regs> {
        if in_contract {
            let mut b = n.clone();
            b.bad = Some(format!("{} panicked on in-contract arguments: {}", what, p));
            Some(b)
        } else {
            EXPECTED_PANICS.fetch_add(1, AO::Relaxed);
            // a refused call must leave every register as it was (checked through the key)
            Some(n.clone())
        }
    };
    macro_rules! assign_plain {
        ($reg:ident, $call:expr, $in_contract:expr, $what:expr) => {{
            match guarded(|| $call) {
                Ok(v) => {
                    if !$in_contract {
                        // documented: "it panics when you fail to satisfy fuzzy hash constraints"
                        n.bad = Some(format!("{} accepted out-of-contract arguments and returned {:?}", $what, v));
                    }
                    n.$reg = v;
                    Some(n)
                }
                Err(p) => panicked(p, $in_contract, $what, &n),
            }
        }};
    }
    match act {
        Act::Parse(r, t) => {
            let txt = &m.texts[t as usize];
            macro_rules! p {
                ($reg:ident, $ty:ty) => {{
                    match guarded(|| <$ty>::from_bytes(txt)) {
                        Ok(Ok(v)) => {
                            n.$reg = v;
                            Some(n)
                        }
                        Ok(Err(_)) => None,
                        Err(p) => {
                            n.bad = Some(format!("{}::from_bytes panicked on {}: {}", stringify!($ty), show(txt), p));
                            Some(n)
                        }
                    }
                }};
            }
            match r {
                0 => p!(rs, RawFuzzyHash),
                1 => p!(rl, LongRawFuzzyHash),
                2 => p!(ns, FuzzyHash),
                3 => p!(nl, LongFuzzyHash),
                4 => p!(ds, DualFuzzyHash),
                _ => p!(dl, LongDualFuzzyHash),
            }
        }
        Act::NearRaw(r, a) | Act::FromInternals(r, a) => {
            let (log, b1, b2) = &m.args[a as usize];
            let by_size = matches!(act, Act::FromInternals(..));
            let bs: u32 = if *log < 31 { 3u32 << *log } else { 4 };
            macro_rules! c {
                ($reg:ident, $ty:ty, $cap2:expr, $norm:expr) => {{
                    let in_contract = *log < 31
                        && b1.len() <= 64
                        && b2.len() <= $cap2
                        && b1.iter().chain(b2.iter()).all(|&x| x < 64)
                        && (!$norm || (refmodel::is_normalized(b1) && refmodel::is_normalized(b2)));
                    if by_size {
                        assign_plain!($reg, <$ty>::new_from_internals(bs, b1, b2), in_contract, "new_from_internals")
                    } else {
                        assign_plain!($reg, <$ty>::new_from_internals_near_raw(*log, b1, b2), in_contract, "new_from_internals_near_raw")
                    }
                }};
            }
            match r {
                0 => c!(rs, RawFuzzyHash, 32, false),
                1 => c!(rl, LongRawFuzzyHash, 64, false),
                2 => c!(ns, FuzzyHash, 32, true),
                _ => c!(nl, LongFuzzyHash, 64, true),
            }
        }
        Act::InitRaw(r, a) | Act::NewRaw(r, a) => {
            let (log, a1, a2, l1, l2) = &m.arrays[a as usize];
            let fresh = matches!(act, Act::NewRaw(..));
            macro_rules! c {
                ($reg:ident, $ty:ty, $cap2:expr, $norm:expr) => {{
                    let x1: [u8; 64] = arr(a1);
                    let x2: [u8; $cap2] = arr(a2);
                    let in_contract = *log < 31
                        && (*l1 as usize) <= 64
                        && (*l2 as usize) <= $cap2
                        && refmodel::plain_valid(*log, &x1, *l1 as usize, &x2, *l2 as usize, $norm);
                    if fresh {
                        assign_plain!($reg, <$ty>::new_from_internals_raw(*log, &x1, &x2, *l1, *l2), in_contract, "new_from_internals_raw")
                    } else {
                        let mut obj = n.$reg;
                        match guarded(|| obj.init_from_internals_raw(*log, &x1, &x2, *l1, *l2)) {
                            Ok(()) => {
                                if !in_contract {
                                    n.bad = Some(format!("init_from_internals_raw accepted out-of-contract arguments and left {:?}", obj));
                                }
                                n.$reg = obj;
                                Some(n)
                            }
                            Err(p) => {
                                // the object the call was made on is observable after the panic
                                n.$reg = obj;
                                panicked(p, in_contract, "init_from_internals_raw", &n)
                            }
                        }
                    }
                }};
            }
            match r {
                0 => c!(rs, RawFuzzyHash, 32, false),
                1 => c!(rl, LongRawFuzzyHash, 64, false),
                2 => c!(ns, FuzzyHash, 32, true),
                _ => c!(nl, LongFuzzyHash, 64, true),
            }
        }
        Act::DualNearRaw(r, a) => {
            let (log, b1, b2) = &m.args[a as usize];
            macro_rules! c {
                ($reg:ident, $ty:ty, $cap2:expr) => {{
                    let in_contract = *log < 31 && b1.len() <= 64 && b2.len() <= $cap2 && b1.iter().chain(b2.iter()).all(|&x| x < 64);
                    assign_plain!($reg, <$ty>::new_from_internals_near_raw(*log, b1, b2), in_contract, "dual new_from_internals_near_raw")
                }};
            }
            match r {
                0 => c!(ds, DualFuzzyHash, 32),
                _ => c!(dl, LongDualFuzzyHash, 64),
            }
        }
        Act::Normalize(r) => {
            let res = match r {
                0 => guarded(|| n.rs.normalize_in_place()),
                1 => guarded(|| n.rl.normalize_in_place()),
                2 => guarded(|| n.ns.normalize_in_place()),
                3 => guarded(|| n.nl.normalize_in_place()),
                4 => guarded(|| n.ds.normalize_in_place()),
                _ => guarded(|| n.dl.normalize_in_place()),
            };
            if let Err(p) = res {
                n.bad = Some(format!("normalize_in_place panicked: {}", p));
            }
            Some(n)
        }
        Act::Conv(c) => {
            let res: Result<(), String> = match c {
                0 => guarded(|| s.rs.into_mut_long_form(&mut n.rl)),
                1 => guarded(|| { let _ = s.rl.try_into_mut_short(&mut n.rs); }),
                2 => guarded(|| s.ns.into_mut_long_form(&mut n.nl)),
                3 => guarded(|| { let _ = s.nl.try_into_mut_short(&mut n.ns); }),
                4 => guarded(|| s.ns.into_mut_raw_form(&mut n.rs)),
                5 => guarded(|| s.nl.into_mut_raw_form(&mut n.rl)),
                6 => guarded(|| n.ns = s.rs.normalize()),
                7 => guarded(|| n.nl = s.rl.normalize()),
                8 => guarded(|| n.ds.init_from_raw_form(&s.rs)),
                9 => guarded(|| n.dl.init_from_raw_form(&s.rl)),
                10 => guarded(|| s.ds.into_mut_raw_form(&mut n.rs)),
                11 => guarded(|| s.dl.into_mut_raw_form(&mut n.rl)),
                12 => guarded(|| n.ds = DualFuzzyHash::from_normalized(&s.ns)),
                13 => guarded(|| n.dl = LongDualFuzzyHash::from_normalized(&s.nl)),
                14 => guarded(|| n.ns = s.ds.to_normalized()),
                15 => guarded(|| n.nl = *s.dl.as_normalized()),
                16 => guarded(|| n.rl = LongRawFuzzyHash::from(s.ns)),
                17 => guarded(|| n.rs = s.rs.clone_normalized()),
                18 => guarded(|| n.rl = s.rs.to_long_form()),
                19 => guarded(|| n.nl = s.ns.to_long_form()),
                20 => guarded(|| n.rs = s.ns.to_raw_form()),
                21 => guarded(|| { if let Ok(v) = RawFuzzyHash::try_from(s.rl) { n.rs = v; } }),
                22 => guarded(|| { if let Ok(v) = FuzzyHash::try_from(s.nl) { n.ns = v; } }),
                _ => guarded(|| n.rs = s.ds.to_raw_form()),
            };
            if let Err(p) = res {
                n.bad = Some(format!("conversion {} panicked: {}", c, p));
            }
            Some(n)
        }
        Act::Target(t) => {
            let res = match t {
                0 => guarded(|| n.ct.init_from(&s.ns)),
                1 => guarded(|| n.ct.init_from(&s.nl)),
                2 => guarded(|| n.ct.init_from(&s.ds)),
                3 => guarded(|| n.ct = FuzzyHashCompareTarget::from(&s.dl)),
                // a copy of a fresh target written over the used one
                _ => guarded(|| n.ct.clone_from(&FuzzyHashCompareTarget::from(&s.nl))),
            };
            if let Err(p) = res {
                n.bad = Some(format!("compare target init panicked: {}", p));
            }
            Some(n)
        }
        Act::Pa(p) => {
            let op = match p {
                0 => PaOp::Init(s.ns.block_hash_1().to_vec()),
                1 => PaOp::Init(s.rs.block_hash_2().to_vec()),
                2 => PaOp::Init(s.rl.block_hash_2().to_vec()),
                3 => PaOp::Init(s.nl.block_hash_1().to_vec()),
                _ => PaOp::Clear,
            };
            // only the operations since the last full re-initialisation matter for rebuilding,
            // but the dirty history is the point: keep the last two
            n.pa_ops.push(op);
            if n.pa_ops.len() > 3 {
                n.pa_ops.remove(0);
            }
            Some(n)
        }
        Act::Gen(g) => {
            let mut gen = Generator::new();
            let data: Vec<u8> = match g {
                0 => b"Hello, World!\n".to_vec(),
                1 => crate::corpus::repeat(&crate::corpus::W[1], 70),
                2 => vec![0u8; 300],
                3 => vec![],
                4 => crate::corpus::repeat(&crate::corpus::W[0], 200),
                5 => { let mut v = crate::corpus::repeat(&crate::corpus::W[2], 40); v.extend([0u8; 7]); v }
                _ => vec![0xaa; 5000],
            };
            gen.update(&data);
            let res = guarded(|| {
                if g % 2 == 0 {
                    gen.finalize().map(|h| n.rs = h).ok();
                } else {
                    gen.finalize_without_truncation().map(|h| n.rl = h).ok();
                }
            });
            if let Err(p) = res {
                n.bad = Some(format!("generator finalize panicked: {}", p));
            }
            Some(n)
        }
    }
}

pub struct RegModel {
    pub menu: Menu,
    pub max_depth: usize,
}

#[derive(Clone, Debug)]
pub struct DSt {
    regs: Regs,
    depth: usize,
    /// cached canonical key: the Debug rendering of every register
    key: std::sync::Arc<String>,
}
impl DSt {
    fn new(regs: Regs, depth: usize) -> Self {
        let key = std::sync::Arc::new(regs.key());
        DSt { regs, depth, key }
    }
}
impl PartialEq for DSt {
    fn eq(&self, o: &Self) -> bool {
        self.key == o.key
    }
}
impl Eq for DSt {}
impl Hash for DSt {
    fn hash<H: Hasher>(&self, h: &mut H) {
        self.key.hash(h)
    }
}

impl Model for RegModel {
    type State = DSt;
    type Action = Act;
    fn init_states(&self) -> Vec<DSt> {
        vec![DSt::new(Regs::new(), 0)]
    }
    fn actions(&self, s: &DSt, a: &mut Vec<Act>) {
        if s.depth < self.max_depth && s.regs.bad.is_none() {
            a.extend(self.menu.actions.iter().copied());
        }
    }
    fn next_state(&self, s: &DSt, act: Act) -> Option<DSt> {
        TRANSITIONS.fetch_add(1, AO::Relaxed);
        apply(&self.menu, &s.regs, act).map(|r| DSt::new(r, s.depth + 1))
    }
    fn properties(&self) -> Vec<Property<Self>> {
        vec![Property::always("every-register-is-valid", |_m, s: &DSt| invariant(&s.regs).is_ok())]
    }
}

fn act_json(a: &Act) -> Value {
    json!(format!("{:?}", a))
}
fn act_parse(s: &str) -> Option<Act> {
    let (name, rest) = s.split_once('(')?;
    let nums: Vec<u8> = rest.trim_end_matches(')').split(',').filter_map(|x| x.trim().parse().ok()).collect();
    Some(match (name, nums.as_slice()) {
        ("Parse", [a, b]) => Act::Parse(*a, *b),
        ("NearRaw", [a, b]) => Act::NearRaw(*a, *b),
        ("FromInternals", [a, b]) => Act::FromInternals(*a, *b),
        ("InitRaw", [a, b]) => Act::InitRaw(*a, *b),
        ("NewRaw", [a, b]) => Act::NewRaw(*a, *b),
        ("DualNearRaw", [a, b]) => Act::DualNearRaw(*a, *b),
        ("Normalize", [a]) => Act::Normalize(*a),
        ("Conv", [a]) => Act::Conv(*a),
        ("Target", [a]) => Act::Target(*a),
        ("Pa", [a]) => Act::Pa(*a),
        ("Gen", [a]) => Act::Gen(*a),
        _ => return None,
    })
}

fn run_path(path: &[Act]) -> Result<(), String> {
    let menu = Menu::new(true);
    let mut s = Regs::new();
    invariant(&s)?;
    for (i, a) in path.iter().enumerate() {
        if let Some(n) = apply(&menu, &s, *a) {
            s = n;
        }
        invariant(&s).map_err(|e| format!("after step {} ({:?}): {}", i + 1, a, e))?;
    }
    Ok(())
}

pub fn replay(c: &Value) -> Result<(), String> {
    if c["corrupted"].is_string() {
        #[cfg(feature = "unchecked")]
        {
            let mut acc = Acc::default();
            corrupted_objects(&mut acc);
            return match acc.violations.first() {
                Some(v) => Err(v.what.clone()),
                None => Ok(()),
            };
        }
        #[cfg(not(feature = "unchecked"))]
        return Err("this case needs the unchecked-feature build (replay through ./check --replay)".into());
    }
    if let Some(shape) = c["sweep_shape"].as_u64() {
        let act = c["sweep_act"].as_str().and_then(act_parse).ok_or("bad sweep action")?;
        return sweep_case(shape as u8, act);
    }
    if let Some(ty) = c["bs_ctor_type"].as_u64() {
        return block_size_ctor_case(ty as usize, c["bs"].as_u64().ok_or("bs")? as u32).map(|_| ());
    }
    if let Some(arg) = c["pa_arg"].as_str() {
        return pa_init_case(&unhex(c["pa_prev"].as_str().unwrap_or("")), &unhex(arg)).map(|_| ());
    }
    let path: Vec<Act> = c["path"]
        .as_array()
        .ok_or("path")?
        .iter()
        .map(|v| v.as_str().and_then(act_parse).ok_or("bad action"))
        .collect::<Result<_, _>>()?;
    run_path(&path)
}


// ------------------------------------------------------------------ byte-value and length sweeps

/// A menu whose argument set number `v` carries the byte value `v` at one position (three shapes).
fn sweep_menu(shape: u8) -> Menu {
    let z = |v: Vec<u8>| {
        let mut a = v;
        a.resize(64, 0);
        a
    };
    let mut args = vec![];
    let mut arrays = vec![];
    for v in 0..=255u8 {
        match shape {
            0 => {
                args.push((2, vec![1, v, 2], vec![3]));
                arrays.push((2, z(vec![1, v, 2]), z(vec![3]), 3, 1));
            }
            1 => {
                args.push((2, vec![4], vec![v]));
                arrays.push((2, z(vec![4]), z(vec![v]), 1, 1));
            }
            _ => {
                // the last position of a full short block hash 2; and, for the array forms, the first byte of the tail
                let mut b2 = ramp(32, 1);
                b2[31] = v;
                args.push((2, vec![v], b2));
                let mut t = z(vec![5, 6]);
                t[2] = v;
                arrays.push((2, t, z(vec![]), 2, 0));
            }
        }
    }
    Menu { texts: texts(), args, arrays, actions: vec![] }
}

fn sweep_base(menu: &Menu) -> Regs {
    let mut s = Regs::new();
    for a in [Act::Parse(0, 2), Act::Parse(1, 3), Act::Parse(2, 2), Act::Parse(3, 4), Act::Parse(4, 1), Act::Parse(5, 3)] {
        if let Some(n) = apply(menu, &s, a) {
            s = n;
        }
    }
    s
}

fn sweep_acts(v: u8) -> Vec<Act> {
    let mut acts = vec![];
    for r in 0..4u8 {
        acts.extend([Act::NearRaw(r, v), Act::FromInternals(r, v), Act::InitRaw(r, v), Act::NewRaw(r, v)]);
    }
    acts.extend([Act::DualNearRaw(0, v), Act::DualNearRaw(1, v)]);
    acts
}

/// One constructor call of the byte-value sweep (a populated register file, one call, the invariant).
fn sweep_case(shape: u8, act: Act) -> Result<(), String> {
    // a panic escaping from the library through any call below is a violation of this case, not a crash
    guard_case(|| sweep_case_unguarded(shape, act))
}

fn sweep_case_unguarded(shape: u8, act: Act) -> Result<(), String> {
    let menu = sweep_menu(shape);
    let base = sweep_base(&menu);
    invariant(&base)?;
    let n = apply(&menu, &base, act).unwrap_or_else(|| base.clone());
    invariant(&n)
}

/// `init_from` on a position array that already holds `prev`: in-contract arguments must give a valid array that
/// represents the argument; out-of-contract arguments (longer than 64, symbols >= 64) may panic but the array must
/// still pass its validity check afterwards (and Debug must not panic).
fn pa_init_case(prev: &[u8], arg: &[u8]) -> Result<&'static str, String> {
    // a panic escaping from the library through any call below is a violation of this case, not a crash
    guard_case(|| pa_init_case_unguarded(prev, arg))
}

fn pa_init_case_unguarded(prev: &[u8], arg: &[u8]) -> Result<&'static str, String> {
    let mut pa = BlockHashPositionArray::new();
    guarded(|| pa.init_from(prev)).map_err(|p| format!("init_from(prev) panicked: {}", p))?;
    let in_contract = arg.len() <= 64 && arg.iter().all(|&x| x < 64);
    let r = guarded(|| pa.init_from(arg));
    let valid = guarded(|| pa.is_valid()).map_err(|p| format!("is_valid panicked after init_from: {}", p))?;
    guarded(|| format!("{:?}", pa)).map_err(|p| format!("Debug panicked after init_from: {}", p))?;
    let what = |o: &str| format!("position array holding {} symbols, init_from({} symbols{}) {}", prev.len(), arg.len(), if in_contract { "" } else { ", out of contract" }, o);
    match r {
        Ok(()) => {
            if !valid {
                return Err(what("returned and left an invalid array"));
            }
            if in_contract {
                let ok = guarded(|| pa.len() as usize == arg.len() && pa.is_equiv(arg))?;
                if !ok {
                    return Err(what("returned but the array does not represent the argument"));
                }
                Ok("accepted")
            } else {
                Ok("out_of_contract_accepted_valid")
            }
        }
        Err(p) => {
            if in_contract {
                return Err(what(&format!("panicked: {}", p)));
            }
            if !valid {
                return Err(what("panicked and left an invalid array behind"));
            }
            Ok("refused_by_panic")
        }
    }
}

fn pa_sweep_args() -> Vec<Vec<u8>> {
    let sym = |n: usize| -> Vec<u8> { (0..n).map(|i| (i % 64) as u8).collect() };
    let mut v: Vec<Vec<u8>> = (0..=70usize).map(sym).collect();
    for n in [127usize, 128, 129, 191, 192, 255, 256, 257, 258, 300, 319, 320, 321, 511, 512, 513, 576, 1024, 4096, 65535, 65536, 65537, 65600] {
        v.push(sym(n));
    }
    for n in [1usize, 4, 64] {
        for pos in [0, n / 2, n - 1] {
            for bad in [64u8, 65, 127, 128, 129, 191, 192, 254, 255] {
                let mut a = sym(n);
                a[pos] = bad;
                v.push(a);
            }
        }
    }
    v.sort();
    v.dedup();
    v
}

/// `new_from_internals(block_size, ..)` over valid and invalid block sizes, all six types.
fn block_size_ctor_case(ty: usize, bs: u32) -> Result<&'static str, String> {
    // a panic escaping from the library through any call below is a violation of this case, not a crash
    guard_case(|| block_size_ctor_case_unguarded(ty, bs))
}

fn block_size_ctor_case_unguarded(ty: usize, bs: u32) -> Result<&'static str, String> {
    let valid = bs % 3 == 0 && (bs / 3).is_power_of_two() && (bs / 3) <= (1 << 30);
    macro_rules! one {
        ($t:ty) => {{
            match guarded(|| <$t>::new_from_internals(bs, &[1, 2], &[3])) {
                Ok(h) => {
                    if !valid {
                        return Err(format!("{}::new_from_internals({}, ..) accepted an invalid block size and returned {:?}", stringify!($t), bs, h));
                    }
                    if !h.is_valid() || h.block_size() != bs {
                        return Err(format!("{}::new_from_internals({}, ..) returned {:?}", stringify!($t), bs, h));
                    }
                    Ok("accepted")
                }
                Err(p) => {
                    if valid {
                        return Err(format!("{}::new_from_internals({}, ..) panicked: {}", stringify!($t), bs, p));
                    }
                    Ok("refused_by_panic")
                }
            }
        }};
    }
    match ty {
        0 => one!(RawFuzzyHash),
        1 => one!(LongRawFuzzyHash),
        2 => one!(FuzzyHash),
        3 => one!(LongFuzzyHash),
        4 => one!(DualFuzzyHash),
        _ => one!(LongDualFuzzyHash),
    }
}

fn block_size_probes() -> Vec<u32> {
    let mut v: Vec<u32> = vec![0, 1, 2, 4, 5, 7, 9, 15, 1 << 31, (1 << 31) + 1, u32::MAX, u32::MAX - 1, u32::MAX - 2, 0xC000_0001, 0xBFFF_FFFF];
    for n in 0..31u32 {
        let b = 3u32 << n;
        v.extend([b, b.wrapping_add(1), b - 1, b ^ 1, 1 << n, b | (b >> 1), b.wrapping_mul(3)]);
    }
    v.sort();
    v.dedup();
    v
}

fn sweeps(rep: &mut Report) {
    {
        let probes = block_size_probes();
        let acc = par_shards(probes.len(), |i, acc| {
            for ty in 0..6 {
                acc.evaluations += 1;
                acc.nontrivial += 1;
                match block_size_ctor_case(ty, probes[i]) {
                    Ok(o) => acc.bump(o),
                    Err(e) => acc.violation(format!("block size ctor ty={} bs={}", ty, probes[i]), e, json!({"bs_ctor_type": ty, "bs": probes[i]})),
                }
            }
            if i == 3 {
                acc.sample(json!({"bs_ctor_type": 0, "bs": probes[i]}));
            }
        });
        acc.into_report(rep, "new_from_internals_x_valid_and_invalid_block_sizes");
    }
    // constructors x byte values
    let acc = par_shards(3 * 256, |i, acc| {
        let shape = (i / 256) as u8;
        let v = (i % 256) as u8;
        let menu = sweep_menu(shape);
        let base = sweep_base(&menu);
        for act in sweep_acts(v) {
            acc.evaluations += 1;
            acc.nontrivial += 1;
            let n = apply(&menu, &base, act).unwrap_or_else(|| base.clone());
            match invariant(&n) {
                Ok(()) => acc.bump(if n.key() == base.key() { "refused_or_unchanged" } else { "object_stored" }),
                Err(e) => acc.violation(format!("sweep shape={} {:?}", shape, act), e, json!({"sweep_shape": shape, "sweep_act": act_json(&act)})),
            }
        }
        if i == 64 {
            acc.sample(json!({"sweep_shape": 0, "sweep_act": "NearRaw(0, 64)"}));
        }
    });
    acc.into_report(rep, "constructors_x_every_byte_value_at_3_positions");
    // position array init_from x lengths / symbols
    let args = pa_sweep_args();
    let prevs: Vec<Vec<u8>> = vec![vec![], (0..64u8).collect(), vec![5, 5, 5], vec![63; 64]];
    let acc = par_shards(args.len(), |i, acc| {
        for prev in &prevs {
            acc.evaluations += 1;
            acc.nontrivial += 1;
            match pa_init_case(prev, &args[i]) {
                Ok(o) => acc.bump(o),
                Err(e) => acc.violation(format!("pa init prev={} arg_len={} arg_head={}", prev.len(), args[i].len(), hex(&args[i][..args[i].len().min(8)])), e, json!({"pa_prev": hex(prev), "pa_arg": hex(&args[i])})),
            }
        }
        if i == 65 {
            acc.sample(json!({"pa_prev": hex(&prevs[1]), "pa_arg_len": args[i].len()}));
        }
    });
    acc.into_report(rep, "position_array_init_from_x_lengths_and_symbols");
}

/// Corrupted objects can only be built through the `unsafe fn ..._unchecked` constructors of the
/// `unchecked` feature.  The validity check, structural equality and Debug formatting are documented
/// never to panic whatever the object contains, and the validity check must say "invalid".
#[cfg(feature = "unchecked")]
fn corrupted_objects(acc: &mut Acc) {
    let z = |v: Vec<u8>| {
        let mut a = v;
        a.resize(64, 0);
        a
    };
    let mut tail = z(vec![1, 2, 3]);
    tail[63] = 9;
    let cases: Vec<(&str, u8, Vec<u8>, Vec<u8>, u8, u8)> = vec![
        ("log 31", 31, z(vec![1]), z(vec![]), 1, 0),
        ("log 255", 255, z(vec![1]), z(vec![]), 1, 0),
        ("len1 65", 3, z(vec![1; 64]), z(vec![]), 65, 0),
        ("len1 255", 3, z(vec![1, 2]), z(vec![]), 255, 0),
        ("len2 over the capacity", 3, z(vec![]), z(vec![1; 64]), 0, 200),
        ("symbol 64", 3, z(vec![1, 64, 2]), z(vec![]), 3, 0),
        ("symbol 255", 3, z(vec![]), z(vec![255]), 0, 1),
        ("non-zero tail", 3, tail, z(vec![]), 3, 0),
        ("everything", 77, z(vec![200; 64]), z(vec![201; 64]), 99, 98),
    ];
    macro_rules! one {
        ($ty:ty, $name:expr, $cap2:expr) => {
            for (what, log, a1, a2, l1, l2) in &cases {
                let x1: [u8; 64] = arr(a1);
                let x2: [u8; $cap2] = arr(a2);
                acc.evaluations += 1;
                acc.nontrivial += 1;
                let r = guarded(|| {
                    let h = unsafe { <$ty>::new_from_internals_raw_unchecked(*log, &x1, &x2, *l1, *l2) };
                    let v = h.is_valid();
                    let fe = h.full_eq(&h);
                    let d = format!("{:?}", h);
                    let other = <$ty>::new();
                    let fe2 = h.full_eq(&other);
                    (v, fe, d, fe2)
                });
                match r {
                    Err(p) => acc.violation(
                        format!("corrupted {} ({})", $name, what),
                        format!("is_valid / full_eq / Debug panicked on a corrupted object: {}", p),
                        json!({"corrupted": what, "type": $name}),
                    ),
                    Ok((v, fe, d, _)) => {
                        // with the short type, "len2 over the capacity" etc. are all invalid by the reference predicate
                        let ref_valid = refmodel::plain_valid(*log, &x1, *l1 as usize, &x2, *l2 as usize, <$ty>::IS_NORMALIZED_FORM);
                        // (how Debug marks an ill-formed object is not part of the property: it only must not panic)
                        if v != ref_valid || !fe || d.is_empty() {
                            acc.violation(
                                format!("corrupted {} ({})", $name, what),
                                format!("is_valid = {} (reference {}), full_eq(self) = {}, Debug = {}", v, ref_valid, fe, &d[..d.len().min(120)]),
                                json!({"corrupted": what, "type": $name}),
                            );
                        } else {
                            acc.bump(if v { "valid" } else { "reported-invalid-without-panic" });
                        }
                    }
                }
            }
        };
    }
    one!(RawFuzzyHash, "RawFuzzyHash", 32);
    one!(LongRawFuzzyHash, "LongRawFuzzyHash", 64);
    one!(FuzzyHash, "FuzzyHash", 32);
    one!(LongFuzzyHash, "LongFuzzyHash", 64);
    // un-normalized content in a normalizing type
    acc.evaluations += 1;
    acc.nontrivial += 1;
    let x1: [u8; 64] = arr(&z(vec![5, 5, 5, 5, 5]));
    let x2: [u8; 32] = [0; 32];
    match guarded(|| {
        let h = unsafe { FuzzyHash::new_from_internals_raw_unchecked(3, &x1, &x2, 5, 0) };
        (h.is_valid(), format!("{:?}", h), h.full_eq(&h))
    }) {
        Ok((false, _, true)) => acc.bump("reported-invalid-without-panic"),
        other => acc.violation("corrupted FuzzyHash (un-normalized)".into(), format!("{:?}", other), json!({"corrupted": "unnormalized", "type": "FuzzyHash"})),
    }
    // dual hashes with out-of-range symbols / log (lengths within capacity)
    for (what, log, b1, b2) in [("symbol 64", 3u8, vec![1u8, 64, 64, 64, 64, 2], vec![]), ("log 200", 200, vec![1, 2], vec![3]), ("symbol 255 run", 3, vec![], vec![255; 9])] {
        acc.evaluations += 1;
        acc.nontrivial += 1;
        let r = guarded(|| {
            let d = unsafe { DualFuzzyHash::new_from_internals_near_raw_unchecked(log, &b1, &b2) };
            (d.is_valid(), format!("{:?}", d))
        });
        match r {
            Ok((false, _)) => acc.bump("reported-invalid-without-panic"),
            other => acc.violation(format!("corrupted DualFuzzyHash ({})", what), format!("{:?}", other.map(|x| x.0)), json!({"corrupted": what, "type": "DualFuzzyHash"})),
        }
    }
}

pub fn run(ctx: &Ctx) -> Report {
    let mut rep = Report::new("model_checking");
    let thorough = ctx.tier == Tier::Thorough;
    #[cfg(feature = "unchecked")]
    {
        let mut acc = Acc::default();
        corrupted_objects(&mut acc);
        acc.sample(json!({"corrupted": "log 255", "type": "RawFuzzyHash"}));
        acc.into_report(&mut rep, "corrupted_objects_never_make_is_valid_full_eq_debug_panic(unchecked_feature_build)");
    }
    // Default impls are the empty objects
    {
        let mut acc = Acc::default();
        acc.evaluations += 1;
        acc.nontrivial += 1;
        let ok = RawFuzzyHash::default().full_eq(&RawFuzzyHash::new())
            && LongRawFuzzyHash::default().full_eq(&LongRawFuzzyHash::new())
            && FuzzyHash::default().full_eq(&FuzzyHash::new())
            && LongFuzzyHash::default().full_eq(&LongFuzzyHash::new())
            && DualFuzzyHash::default() == DualFuzzyHash::new()
            && LongDualFuzzyHash::default() == LongDualFuzzyHash::new()
            && FuzzyHashCompareTarget::default().full_eq(&FuzzyHashCompareTarget::new())
            && BlockHashPositionArray::default() == BlockHashPositionArray::new()
            && format!("{:?}", Generator::default()) == format!("{:?}", Generator::new())
            && RawFuzzyHash::new().to_string() == "3::"
            && DualFuzzyHash::new().is_valid()
            && FuzzyHashCompareTarget::new().is_valid();
        if !ok {
            acc.violation("Default impls".into(), "a Default impl differs from new() / the empty object is not `3::`".into(), json!({"path": []}));
        }
        acc.into_report(&mut rep, "default_impls");
    }
    // depth-1 sweep with the full menu (every constructor with every in / out-of-contract argument
    // set) from the initial state and from three populated base states
    let full = Menu::new(true);
    let bases: Vec<Vec<Act>> = vec![
        vec![],
        vec![Act::Parse(0, 2), Act::Parse(1, 3), Act::Parse(2, 2), Act::Parse(3, 4)],
        vec![Act::Parse(1, 4), Act::Parse(5, 3), Act::Parse(4, 1), Act::Conv(0), Act::Target(1), Act::Pa(2)],
        vec![Act::NearRaw(0, 7), Act::NearRaw(1, 7), Act::NearRaw(2, 7), Act::NearRaw(3, 7), Act::Conv(8), Act::Conv(9)],
    ];
    let mut acc = Acc::default();
    for base in &bases {
        let mut s = Regs::new();
        for a in base {
            if let Some(n) = apply(&full, &s, *a) {
                s = n;
            }
        }
        for a in &full.actions {
            acc.evaluations += 1;
            acc.nontrivial += 1;
            let n = apply(&full, &s, *a).unwrap_or_else(|| s.clone());
            if let Err(e) = invariant(&n) {
                let mut path = base.clone();
                path.push(*a);
                acc.violation(
                    format!("{:?} after {} base steps", a, base.len()),
                    e,
                    json!({"path": path.iter().map(act_json).collect::<Vec<_>>()}),
                );
            }
        }
    }
    acc.sample(json!({"path": ["Parse(1, 3)", "Conv(1)"]}));
    acc.into_report(&mut rep, "depth1_full_menu_from_base_states");

    sweeps(&mut rep);

    // bounded BFS with the reduced menu (depth 3 quick; 4 thorough) — stateright + own BFS
    let depth: usize = std::env::var("MC_C11_DEPTH").ok().and_then(|v| v.parse().ok()).unwrap_or(ctx.tier.pick(3usize, 4));
    let cap = ctx.tier.pick(400_000usize, 6_000_000);
    TRANSITIONS.store(0, AO::Relaxed);
    EXPECTED_PANICS.store(0, AO::Relaxed);
    let menu_full_in_bfs = false;
    let _ = thorough;
    let sr = explore::run_stateright(RegModel { menu: Menu::new(menu_full_in_bfs), max_depth: depth }, 16);
    let sr_trans = TRANSITIONS.load(AO::Relaxed);
    let exp_panics = EXPECTED_PANICS.load(AO::Relaxed);
    for (name, path) in &sr.discoveries {
        rep.violation(Violation {
            signature: format!("{} path={:?}", name, path),
            what: run_path(path).err().unwrap_or_else(|| name.clone()),
            case: json!({"path": path.iter().map(act_json).collect::<Vec<_>>()}),
        });
    }
    // cross-check + recorded paths: own BFS one level shallower (parent pointers are memory hungry)
    let m2 = RegModel { menu: Menu::new(false), max_depth: depth.min(3) };
    let b = explore::bfs(&m2, cap, 400);
    let mut traces = 0u64;
    if let Some((name, path)) = &b.violation {
        if sr.discoveries.is_empty() {
            rep.violation(Violation {
                signature: format!("{} path={:?}", name, path),
                what: run_path(path).err().unwrap_or_else(|| name.clone()),
                case: json!({"path": path.iter().map(act_json).collect::<Vec<_>>()}),
            });
        }
    } else {
        for p in &b.sample_paths {
            traces += 1;
            if let Err(e) = run_path(p) {
                rep.violation(Violation {
                    signature: format!("trace {:?}", p),
                    what: e,
                    case: json!({"path": p.iter().map(act_json).collect::<Vec<_>>()}),
                });
            }
        }
    }
    rep.set("states", sr.unique);
    rep.set("transitions", sr_trans);
    rep.set("traces_validated_against_impl", traces);
    rep.set(
        "bfs",
        json!({"depth_bound": depth, "menu_actions": Menu::new(menu_full_in_bfs).actions.len(), "stateright_unique": sr.unique,
               "stateright_generated": sr.generated, "max_depth": sr.max_depth, "expected_panics_on_out_of_contract_calls": exp_panics,
               "crosscheck_bfs": {"depth_bound": depth.min(3), "menu_actions": Menu::new(false).actions.len(), "states": b.states, "transitions": b.transitions, "capped": b.capped}}),
    );
    if let Some(Value::Array(a)) = rep.coverage.get_mut("samples") {
        if let Some(p) = b.sample_paths.first() {
            a.push(json!({"path": p.iter().map(act_json).collect::<Vec<_>>()}));
        }
    }
    rep.set("exhaustive", false);
    rep.set("exhaustive_scope", "all action sequences up to the depth bound over the stated menu (depth-bounded, not closed)");
    rep.set(
        "rule",
        "register file with one object per type (4 plain, 2 dual, compare target, position array); menu: parse 10 texts (valid, run-heavy, capacity, long block hash 2, raw-overflowing by one run / by ordinary characters after a run, invalid) into 6 registers; new_from_internals / _near_raw with 15 and _raw / init_from_internals_raw with 10 argument sets each (in-contract, symbol 64 / 255 / 200, length over capacity, non-zero tail, un-normalised data for normalising types, invalid block size / log); normalize_in_place; 24 conversions between registers with previously used destinations; dual init / expand; compare-target init from 4 sources and `clone_from` of a fresh target; position array init / clear; generator results.  Depth-1 sweep of the full menu from 4 base states + BFS to the depth bound.  Sweeps: every checked constructor form of the 6 types with EVERY byte value 0..=255 at three positions (middle of block hash 1, block hash 2, last position of a full block hash 2 / first tail byte of the array forms), from a populated register file; position array init_from over every length 0..=70 and lengths around 128 / 256 / 320 / 512 / 65536 and symbols {64,65,127..129,191,192,254,255} at the first / middle / last position, on arrays that already hold a string: in-contract arguments give an array representing the argument, refused ones leave a valid array.  Out-of-contract constructor calls must panic (counted; the documentation says so) and must never leave an invalid object.",
    );
    rep
}
