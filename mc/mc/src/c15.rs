//! C15 — conversions between hash variants commute and lose nothing.
//!
//! Explicit-state search per seed hash: state = (variant, real object,
//! "a normalising step was taken"); actions = every conversion edge, each
//! `into_mut_*` with a destination from a dirt menu.  The space closes per seed
//! (at most 12 states), so conversion chains of any length are covered.

use crate::common::*;
use crate::corpus;
use crate::explore;
use crate::hashobj::*;
use refmodel::text as rt;
use serde_json::{json, Value};
use ssdeep::{
    DualFuzzyHash, FuzzyHash, FuzzyHashOperationError, LongDualFuzzyHash, LongFuzzyHash, LongRawFuzzyHash, RawFuzzyHash,
};
use stateright::{Model, Property};
use std::convert::TryFrom;
use std::hash::{Hash, Hasher};

#[derive(Clone, Copy, Debug)]
pub enum Obj {
    RS(RawFuzzyHash),
    RL(LongRawFuzzyHash),
    NS(FuzzyHash),
    NL(LongFuzzyHash),
    DS(DualFuzzyHash),
    DL(LongDualFuzzyHash),
}

#[derive(Clone, Debug)]
pub struct St {
    obj: Obj,
    normed: bool,
    bad: Option<String>,
}
impl St {
    fn key(&self) -> String {
        guarded(|| format!("{:?}|{}|{}", self.obj, self.normed, self.bad.is_some())).unwrap_or_else(|p| format!("PANIC while rendering the object: {} bad={}", p, self.bad.is_some()))
    }
}
impl PartialEq for St {
    fn eq(&self, o: &Self) -> bool {
        self.key() == o.key()
    }
}
impl Eq for St {}
impl Hash for St {
    fn hash<H: Hasher>(&self, h: &mut H) {
        self.key().hash(h)
    }
}

type Seed = (u8, Vec<u8>, Vec<u8>);

pub struct ConvModel {
    pub seed: Seed,
}

const N_EDGES: usize = 44;
const N_DIRT: usize = 3;

fn dirt_rs(d: usize) -> RawFuzzyHash {
    match d {
        0 => RawFuzzyHash::new(),
        1 => RawFuzzyHash::new_from_internals_near_raw(30, &[63; 64], &[63; 32]),
        _ => RawFuzzyHash::new_from_internals_near_raw(9, &corpus::ramp(64, 5), &[7; 32]),
    }
}
fn dirt_rl(d: usize) -> LongRawFuzzyHash {
    match d {
        0 => LongRawFuzzyHash::new(),
        1 => LongRawFuzzyHash::new_from_internals_near_raw(30, &[63; 64], &[63; 64]),
        _ => LongRawFuzzyHash::new_from_internals_near_raw(9, &corpus::ramp(64, 5), &[7; 64]),
    }
}
fn dirt_ds(d: usize) -> DualFuzzyHash {
    DualFuzzyHash::from_raw_form(&dirt_rs(d))
}
fn dirt_dl(d: usize) -> LongDualFuzzyHash {
    LongDualFuzzyHash::from_raw_form(&dirt_rl(d))
}

fn content(seed: &Seed, normed: bool) -> (Vec<u8>, Vec<u8>) {
    if normed {
        (refmodel::normalize(&seed.1), refmodel::normalize(&seed.2))
    } else {
        (seed.1.clone(), seed.2.clone())
    }
}

/// The oracle: the object must be the direct conversion of the seed.
fn judge(seed: &Seed, st: &St) -> Result<(), String> {
    // a panic escaping from the library through any call below is a violation of this case, not a crash
    guard_case(|| judge_unguarded(seed, st))
}

fn judge_unguarded(seed: &Seed, st: &St) -> Result<(), String> {
    if let Some(b) = &st.bad {
        return Err(b.clone());
    }
    let normed_content = match st.obj {
        Obj::NS(_) | Obj::NL(_) => true,
        _ => st.normed,
    };
    let (c1, c2) = content(seed, normed_content);
    macro_rules! plain {
        ($h:expr, $ty:ty) => {{
            let h = $h;
            if !h.is_valid() || !h.ref_valid() {
                return Err(format!("{}: object fails the validity check: {:?}", <$ty as Plain>::NAME, h));
            }
            let exp = <$ty>::new_from_internals_near_raw(seed.0, &c1, &c2);
            if *h != exp || !h.full_eq(&exp) {
                return Err(format!("{}: {} is not the direct conversion {}", <$ty as Plain>::NAME, h, exp));
            }
            // the text differs from the source text at most by run collapsing
            let text = h.to_string();
            let p = rt::parse(text.as_bytes(), rt::Rule { cap1: 64, cap2: 64, count_normalized: false, strict: false })
                .map_err(|_| "result text does not parse".to_string())?;
            if p.log != seed.0 || refmodel::normalize(&p.bh1) != refmodel::normalize(&seed.1) || refmodel::normalize(&p.bh2) != refmodel::normalize(&seed.2) {
                return Err(format!("text {} differs from the source by more than run collapsing", text));
            }
        }};
    }
    macro_rules! dual {
        ($d:expr, $ty:ty, $raw:ty) => {{
            let d = $d;
            if !d.is_valid() {
                return Err(format!("{}: dual fails the validity check: {:?}", <$ty as Dual>::NAME, d));
            }
            let exp = <$ty>::new_from_internals_near_raw(seed.0, &c1, &c2);
            if *d != exp || format!("{:?}", d) != format!("{:?}", exp) {
                return Err(format!("{}: {:?} is not the direct conversion {:?}", <$ty as Dual>::NAME, d, exp));
            }
            let r: $raw = d.to_raw_form();
            if r.block_hash_1() != &c1[..] || r.block_hash_2() != &c2[..] || r.log_block_size() != seed.0 {
                return Err(format!("{}: raw form {} differs", <$ty as Dual>::NAME, r));
            }
        }};
    }
    match &st.obj {
        Obj::RS(h) => plain!(h, RawFuzzyHash),
        Obj::RL(h) => plain!(h, LongRawFuzzyHash),
        Obj::NS(h) => plain!(h, FuzzyHash),
        Obj::NL(h) => plain!(h, LongFuzzyHash),
        Obj::DS(d) => dual!(d, DualFuzzyHash, RawFuzzyHash),
        Obj::DL(d) => dual!(d, LongDualFuzzyHash, LongRawFuzzyHash),
    }
    Ok(())
}

/// Apply one conversion edge.  `None` = edge not applicable to this variant.
fn apply(seed: &Seed, st: &St, edge: usize, dirt: usize) -> Option<St> {
    // a panic escaping from the library through a call that is not individually guarded is a bad state, not a crash
    match guarded(|| apply_unguarded(seed, st, edge, dirt)) {
        Ok(r) => r,
        Err(p) => Some(St { obj: st.obj, normed: st.normed, bad: Some(format!("panic in conversion edge {}: {}", edge, p)) }),
    }
}

fn apply_unguarded(seed: &Seed, st: &St, edge: usize, dirt: usize) -> Option<St> {
    let ok = |obj: Obj, normed: bool| Some(St { obj, normed, bad: None });
    let bad = |m: String| Some(St { obj: st.obj, normed: st.normed, bad: Some(m) });
    let n = st.normed;
    // narrowing helper: must fail exactly when block hash 2 is longer than 32, leaving the destination untouched
    macro_rules! narrow {
        ($src:expr, $mk:path, $dirtfn:expr, $bh2len:expr) => {{
            let mut dst = $dirtfn;
            let before = format!("{:?}", dst);
            let keep = dst;
            let r = guarded(|| $src.try_into_mut_short(&mut dst));
            match r {
                Err(p) => bad(format!("panic in try_into_mut_short: {}", p)),
                Ok(Ok(())) => {
                    if $bh2len > 32 {
                        bad(format!("narrowing succeeded with block hash 2 of {} symbols", $bh2len))
                    } else {
                        ok($mk(dst), n)
                    }
                }
                Ok(Err(e)) => {
                    if $bh2len <= 32 {
                        bad(format!("narrowing failed ({:?}) with block hash 2 of {} symbols", e, $bh2len))
                    } else if e != FuzzyHashOperationError::BlockHashOverflow {
                        bad(format!("narrowing failed with {:?}", e))
                    } else if format!("{:?}", dst) != before || !dst.full_eq(&keep) {
                        bad(format!("failed narrowing modified the destination: {} -> {:?}", before, dst))
                    } else {
                        None // stays where it was; not a transition
                    }
                }
            }
        }};
    }
    macro_rules! tryfrom {
        ($src:expr, $dstty:ty, $mk:path, $bh2len:expr) => {{
            match guarded(|| <$dstty>::try_from($src)) {
                Err(p) => bad(format!("panic in TryFrom: {}", p)),
                Ok(Ok(v)) => {
                    if $bh2len > 32 {
                        bad(format!("TryFrom succeeded with block hash 2 of {} symbols", $bh2len))
                    } else {
                        ok($mk(v), n)
                    }
                }
                Ok(Err(e)) => {
                    if $bh2len <= 32 || e != FuzzyHashOperationError::BlockHashOverflow {
                        bad(format!("TryFrom failed ({:?}) with block hash 2 of {} symbols", e, $bh2len))
                    } else {
                        None
                    }
                }
            }
        }};
    }
    macro_rules! g {
        ($e:expr, $mk:path, $normed:expr) => {{
            match guarded(|| $e) {
                Ok(v) => ok($mk(v), $normed),
                Err(p) => bad(format!("panic in edge {}: {}", edge, p)),
            }
        }};
    }
    let _ = seed;
    match (&st.obj, edge) {
        // ---- short raw
        (Obj::RS(h), 0) => g!(h.to_long_form(), Obj::RL, n),
        (Obj::RS(h), 1) => g!({ let mut d = dirt_rl(dirt); h.into_mut_long_form(&mut d); d }, Obj::RL, n),
        (Obj::RS(h), 2) => g!(LongRawFuzzyHash::from_short_form(h), Obj::RL, n),
        (Obj::RS(h), 3) => g!(LongRawFuzzyHash::from(*h), Obj::RL, n),
        (Obj::RS(h), 4) => g!(h.normalize(), Obj::NS, true),
        (Obj::RS(h), 5) => g!(FuzzyHash::from_raw_form(h), Obj::NS, true),
        (Obj::RS(h), 6) => g!(FuzzyHash::from(*h), Obj::NS, true),
        (Obj::RS(h), 7) => g!({ let mut x = *h; x.normalize_in_place(); x }, Obj::RS, true),
        (Obj::RS(h), 8) => g!(h.clone_normalized(), Obj::RS, true),
        (Obj::RS(h), 9) => g!(DualFuzzyHash::from_raw_form(h), Obj::DS, n),
        (Obj::RS(h), 10) => g!({ let mut d = dirt_ds(dirt); d.init_from_raw_form(h); d }, Obj::DS, n),
        // ---- long raw
        (Obj::RL(h), 11) => narrow!(h, Obj::RS, dirt_rs(dirt), h.block_hash_2_len()),
        (Obj::RL(h), 12) => tryfrom!(*h, RawFuzzyHash, Obj::RS, h.block_hash_2_len()),
        (Obj::RL(h), 13) => g!(h.normalize(), Obj::NL, true),
        (Obj::RL(h), 14) => g!(LongFuzzyHash::from_raw_form(h), Obj::NL, true),
        (Obj::RL(h), 15) => g!(LongFuzzyHash::from(*h), Obj::NL, true),
        (Obj::RL(h), 16) => g!({ let mut x = *h; x.normalize_in_place(); x }, Obj::RL, true),
        (Obj::RL(h), 17) => g!(h.clone_normalized(), Obj::RL, true),
        (Obj::RL(h), 18) => g!(LongDualFuzzyHash::from_raw_form(h), Obj::DL, n),
        (Obj::RL(h), 19) => g!({ let mut d = dirt_dl(dirt); d.init_from_raw_form(h); d }, Obj::DL, n),
        // ---- short normalized
        (Obj::NS(h), 20) => g!(h.to_long_form(), Obj::NL, true),
        (Obj::NS(h), 21) => g!({ let mut d = LongFuzzyHash::from_raw_form(&dirt_rl(dirt)); h.into_mut_long_form(&mut d); d }, Obj::NL, true),
        (Obj::NS(h), 22) => g!(LongFuzzyHash::from_short_form(h), Obj::NL, true),
        (Obj::NS(h), 23) => g!(LongFuzzyHash::from(*h), Obj::NL, true),
        (Obj::NS(h), 24) => g!(h.to_raw_form(), Obj::RS, true),
        (Obj::NS(h), 25) => g!({ let mut d = dirt_rs(dirt); h.into_mut_raw_form(&mut d); d }, Obj::RS, true),
        (Obj::NS(h), 26) => g!(RawFuzzyHash::from_normalized(h), Obj::RS, true),
        (Obj::NS(h), 27) => g!(RawFuzzyHash::from(*h), Obj::RS, true),
        (Obj::NS(h), 28) => g!(LongRawFuzzyHash::from(*h), Obj::RL, true),
        (Obj::NS(h), 29) => g!(DualFuzzyHash::from_normalized(h), Obj::DS, true),
        (Obj::NS(h), 30) => g!(DualFuzzyHash::from(*h), Obj::DS, true),
        (Obj::NS(h), 31) => g!(h.normalize(), Obj::NS, true),
        // ---- long normalized
        (Obj::NL(h), 32) => narrow!(h, Obj::NS, FuzzyHash::from_raw_form(&dirt_rs(dirt)), h.block_hash_2_len()),
        (Obj::NL(h), 33) => tryfrom!(*h, FuzzyHash, Obj::NS, h.block_hash_2_len()),
        (Obj::NL(h), 34) => g!(h.to_raw_form(), Obj::RL, true),
        (Obj::NL(h), 35) => g!({ let mut d = dirt_rl(dirt); h.into_mut_raw_form(&mut d); d }, Obj::RL, true),
        (Obj::NL(h), 36) => g!(LongRawFuzzyHash::from(*h), Obj::RL, true),
        (Obj::NL(h), 37) => g!(LongDualFuzzyHash::from_normalized(h), Obj::DL, true),
        // ---- duals
        (Obj::DS(d), 38) => g!(d.to_raw_form(), Obj::RS, n),
        (Obj::DS(d), 39) => g!({ let mut x = dirt_rs(dirt); d.into_mut_raw_form(&mut x); x }, Obj::RS, n),
        (Obj::DS(d), 40) => g!(d.to_normalized(), Obj::NS, true),
        (Obj::DS(d), 41) => g!({ let mut x = *d; x.normalize_in_place(); x }, Obj::DS, true),
        (Obj::DL(d), 38) => g!(d.to_raw_form(), Obj::RL, n),
        (Obj::DL(d), 39) => g!({ let mut x = dirt_rl(dirt); d.into_mut_raw_form(&mut x); x }, Obj::RL, n),
        (Obj::DL(d), 40) => g!(*d.as_normalized(), Obj::NL, true),
        (Obj::DL(d), 41) => g!({ let mut x = *d; x.normalize_in_place(); x }, Obj::DL, true),
        (Obj::DS(d), 42) => g!(FuzzyHash::from_raw_form(&d.to_raw_form()), Obj::NS, true),
        (Obj::DL(d), 43) => g!(LongFuzzyHash::from_raw_form(&d.to_raw_form()), Obj::NL, true),
        _ => None,
    }
}

fn uses_dirt(edge: usize) -> bool {
    matches!(edge, 1 | 10 | 11 | 19 | 21 | 25 | 32 | 35 | 39)
}

impl Model for ConvModel {
    type State = St;
    type Action = (usize, usize);
    fn init_states(&self) -> Vec<St> {
        // the seed as a long raw hash (always representable)
        match guarded(|| LongRawFuzzyHash::new_from_internals_near_raw(self.seed.0, &self.seed.1, &self.seed.2)) {
            Ok(h) => vec![St { obj: Obj::RL(h), normed: false, bad: None }],
            Err(p) => vec![St { obj: Obj::RL(LongRawFuzzyHash::new()), normed: false, bad: Some(format!("panic while building the seed object: {}", p)) }],
        }
    }
    fn actions(&self, _s: &St, a: &mut Vec<(usize, usize)>) {
        for e in 0..N_EDGES {
            if uses_dirt(e) {
                for d in 0..N_DIRT {
                    a.push((e, d));
                }
            } else {
                a.push((e, 0));
            }
        }
    }
    fn next_state(&self, s: &St, (e, d): (usize, usize)) -> Option<St> {
        if s.bad.is_some() {
            return None;
        }
        apply(&self.seed, s, e, d)
    }
    fn properties(&self) -> Vec<Property<Self>> {
        vec![Property::always("result-is-the-direct-conversion-of-the-seed", |m, s: &St| judge(&m.seed, s).is_ok())]
    }
}

fn run_path(seed: &Seed, path: &[(usize, usize)]) -> Result<(), String> {
    let m = ConvModel { seed: seed.clone() };
    let mut s = m.init_states().remove(0);
    judge(seed, &s)?;
    for &(e, d) in path {
        match apply(seed, &s, e, d) {
            Some(ns) => {
                s = ns;
                judge(seed, &s).map_err(|m| format!("after edge {} (dirt {}): {}", e, d, m))?;
            }
            None => {}
        }
    }
    Ok(())
}

pub fn replay(c: &Value) -> Result<(), String> {
    let seed: Seed = (
        c["seed"]["log"].as_u64().ok_or("log")? as u8,
        unhex(c["seed"]["bh1"].as_str().ok_or("bh1")?),
        unhex(c["seed"]["bh2"].as_str().ok_or("bh2")?),
    );
    let path: Vec<(usize, usize)> = c["path"]
        .as_array()
        .ok_or("path")?
        .iter()
        .map(|p| (p[0].as_u64().unwrap_or(0) as usize, p[1].as_u64().unwrap_or(0) as usize))
        .collect();
    run_path(&seed, &path)
}

fn case(seed: &Seed, path: &[(usize, usize)]) -> Value {
    json!({"seed": {"log": seed.0, "bh1": hex(&seed.1), "bh2": hex(&seed.2), "text": rt::format(seed.0, &seed.1, &seed.2)},
           "path": path.iter().map(|p| json!([p.0, p.1])).collect::<Vec<_>>()})
}

pub fn seeds(thorough: bool) -> Vec<Seed> {
    let mut s: Vec<Seed> = corpus::hash_corpus(64, thorough).into_iter().step_by(if thorough { 2 } else { 7 }).collect();
    // block hash 2 around the narrowing border, raw and after run collapsing
    for l in 28..=40usize {
        s.push((3, vec![1, 2, 3], corpus::ramp(l, 0)));
        let mut v = corpus::ramp(l.saturating_sub(8), 0);
        v.extend(vec![0u8; 8]);
        s.push((30, vec![0, 0, 0, 0, 0], v.clone()));
        let mut w = vec![63u8; 6];
        w.extend(corpus::ramp(l - 6, 9));
        s.push((0, corpus::ramp(64, 1), w));
    }
    s.push((0, vec![], vec![]));
    s.push((30, vec![63; 64], vec![63; 64]));
    s.push((30, vec![0; 64], vec![0; 33]));
    s.sort();
    s.dedup();
    s
}

pub fn run(ctx: &Ctx) -> Report {
    let mut rep = Report::new("model_checking");
    let thorough = ctx.tier == Tier::Thorough;
    let sd = seeds(thorough);
    let acc = par_shards(sd.len(), |i, acc| {
        let m = ConvModel { seed: sd[i].clone() };
        let b = explore::bfs(&m, 10_000, 4);
        acc.evaluations += b.transitions;
        acc.nontrivial += b.states;
        acc.count("states", b.states);
        acc.count("transitions", b.transitions);
        acc.max("max_states_per_seed", b.states);
        acc.max("max_depth", b.depth);
        acc.bump(&format!("states_per_seed={:02}", b.states));
        if b.capped {
            acc.count("capped", 1);
        }
        if let Some((_name, path)) = &b.violation {
            let what = run_path(&sd[i], path).err().unwrap_or_else(|| "invariant failed".into());
            acc.violation(
                format!("seed={} path={:?}", rt::format(sd[i].0, &sd[i].1, &sd[i].2), path),
                what,
                case(&sd[i], path),
            );
        } else {
            // re-execute recorded paths from scratch on fresh objects
            for p in &b.sample_paths {
                acc.count("traces", 1);
                if let Err(e) = run_path(&sd[i], p) {
                    acc.violation(format!("trace seed={}", rt::format(sd[i].0, &sd[i].1, &sd[i].2)), e, case(&sd[i], p));
                }
            }
            if i % 997 == 5 {
                if let Some(p) = b.sample_paths.first() {
                    acc.sample(case(&sd[i], p));
                }
            }
        }
    });
    let states = acc.counters.get("states").copied().unwrap_or(0);
    let transitions = acc.counters.get("transitions").copied().unwrap_or(0);
    let traces = acc.counters.get("traces").copied().unwrap_or(0);
    let capped = acc.counters.get("capped").copied().unwrap_or(0);
    acc.into_report(&mut rep, "conversion_graph_per_seed");
    // cross-check a handful of seeds with stateright (two explorers must agree on the state count)
    let mut agree = 0;
    for i in (0..sd.len()).step_by((sd.len() / 6).max(1)) {
        let b = explore::bfs(&ConvModel { seed: sd[i].clone() }, 10_000, 0);
        let sr = explore::run_stateright(ConvModel { seed: sd[i].clone() }, 2);
        if b.violation.is_none() && sr.discoveries.is_empty() {
            if sr.unique != b.states {
                eprintln!("mc: explorers disagree on seed {}: {} vs {}", i, sr.unique, b.states);
                std::process::exit(5);
            }
            agree += 1;
        }
    }
    rep.set("stateright_crosschecked_seeds", agree);
    rep.set("seeds", sd.len());
    rep.set("states", states);
    rep.set("transitions", transitions);
    rep.set("traces_validated_against_impl", traces);
    rep.set("exhaustive", capped == 0);
    rep.set(
        "rule",
        "per seed hash (strided HASH corpus plus block hash 2 of 28..40 symbols raw / after run collapsing): BFS over (variant in {short/long raw, short/long normalized, short/long dual}, object, normalising-step-taken) under 44 conversion edges x 3 destination dirt states; closed space per seed; in every state the object must be valid and full_eq the direct conversion of the seed; narrowing must fail exactly when block hash 2 > 32 and leave the (dirty) destination untouched.",
    );
    rep
}
