//! C12 — fixed-size hint, reset and the generator's error contract.
//!
//! Explicit-state search on (real `Generator`, reference {bytes fed, declared
//! size}).  Actions: declare a size (u64 and usize forms), feed the next chunk
//! of a script, in-place zero skip (hook H1, to reach 96 / 192 GiB), reset and
//! start another script.  In every state all finalisations are compared with
//! the declarative reference under the declared-size model; after `reset()` the
//! reference is *fresh*, so every later history is a differential between "the
//! state reached from elsewhere" and "the initial state".

use crate::common::*;
use crate::corpus;
use crate::explore;
use crate::gen_util::*;
use refmodel::ctph::Ctph;
use serde_json::{json, Value};
use ssdeep::{Generator, GeneratorError};
use stateright::{Model, Property};
use std::hash::{Hash, Hasher};
use std::sync::atomic::{AtomicU64, Ordering as AO};
use std::sync::Arc;

const MAX: u64 = 192u64 << 30;

#[derive(Clone, Debug)]
pub struct Script {
    pub name: &'static str,
    pub zero_prefix: u64,
    pub bytes: Vec<u8>,
}

pub fn scripts(thorough: bool) -> Vec<Script> {
    let mut last = corpus::repeat(&corpus::W30B, 64);
    last.push(1);
    let mut v = vec![
        Script { name: "hello", zero_prefix: 0, bytes: b"Hello, World!\n".to_vec() },
        Script { name: "W2^70 (elimination)", zero_prefix: 0, bytes: corpus::repeat(&corpus::W[2], 70) },
        Script { name: "96GiB-448 + W30^64 + 01 (last-piece hash)", zero_prefix: (96u64 << 30) - 448, bytes: last },
        Script { name: "192GiB-448 + W30^64 (exactly the limit)", zero_prefix: MAX - 448, bytes: corpus::repeat(&corpus::W[30], 64) },
        Script { name: "border 192*2^5 crossing", zero_prefix: (192u64 << 5) - 230, bytes: corpus::repeat(&corpus::W[5], 66) },
        Script { name: "large but piece-poor: 192*2^6+5 zeros + hello", zero_prefix: (192u64 << 6) + 5, bytes: b"Hello, World!\n".to_vec() },
        // pieces at the smallest level only, then a long tail without pieces: the final block size falls back
        // several steps, so no level may be given up early just because a (larger) total was declared
        Script { name: "W0^70 + 100000 zeros + 01 (piece-rich head, empty tail)", zero_prefix: 0, bytes: { let mut b = corpus::repeat(&corpus::W[0], 70); b.extend(vec![0u8; 100_000]); b.push(1); b } },
    ];
    if thorough {
        v.push(Script { name: "192GiB-447 + W30^64 (one over the limit)", zero_prefix: MAX - 447, bytes: corpus::repeat(&corpus::W[30], 64) });
        v.push(Script { name: "48GiB border + W29^65", zero_prefix: (48u64 << 30) - 200, bytes: corpus::repeat(&corpus::W[29], 65) });
        v.push(Script { name: "W1^66 + 400000 zeros (piece-rich head, empty tail)", zero_prefix: 0, bytes: { let mut b = corpus::repeat(&corpus::W[1], 66); b.extend(vec![0u8; 400_000]); b } });
        v.push(Script { name: "W0^200 W7^40", zero_prefix: 0, bytes: { let mut b = corpus::repeat(&corpus::W[0], 200); b.extend(corpus::repeat(&corpus::W[7], 40)); b } });
    }
    v
}

#[derive(Clone, Copy, Debug, PartialEq, Eq, Hash)]
pub enum Act {
    /// declare size #k of the menu; `usize_form` uses set_fixed_input_size_in_usize
    Declare(u8, bool),
    /// in-place zero skip to the script's zero prefix (only as the first step of a segment)
    Skip,
    /// feed the next chunk (of 3) of the current script
    Feed,
    /// reset and continue with script #k
    Reset(u8),
}

#[derive(Clone, Debug)]
pub struct St {
    g: Generator,
    r: Ctph,
    declared: Option<u64>,
    script: usize,
    skipped: bool,
    chunk: usize, // chunks fed (0..=3)
    resets: usize,
    bad: Option<String>,
    key: Arc<String>,
}
impl St {
    fn rekey(mut self) -> Self {
        // the reference state is a function of (script, skipped, chunk) since the last reset,
        // all of which are in the key, so it need not be rendered
        self.key = Arc::new(format!(
            "{:?}|{:?}|{}|{}|{}|{}|{}",
            self.g,
            self.declared,
            self.script,
            self.skipped,
            self.chunk,
            self.resets,
            self.bad.is_some()
        ));
        self
    }
}
impl PartialEq for St {
    fn eq(&self, o: &Self) -> bool {
        self.key == o.key
    }
}
impl Eq for St {}
impl Hash for St {
    fn hash<H: Hasher>(&self, h: &mut H) {
        self.key.hash(h)
    }
}

pub struct HintModel {
    pub scripts: Vec<Script>,
    pub max_resets: usize,
    pub first_scripts: Vec<usize>,
    pub counter: Arc<AtomicU64>,
}

fn total(s: &Script) -> u64 {
    s.zero_prefix + s.bytes.len() as u64
}

fn size_menu(s: &Script) -> Vec<u64> {
    let t = total(s);
    vec![0, t.saturating_sub(1), t, t + 1, MAX, MAX + 1, u64::MAX]
}

/// Observables under the declared-size model.
fn judge(st: &St) -> Result<(), String> {
    // a panic escaping from the library through any call below is a violation of this case, not a crash
    guard_case(|| judge_unguarded(st))
}

fn judge_unguarded(st: &St) -> Result<(), String> {
    if let Some(b) = &st.bad {
        return Err(b.clone());
    }
    let before = format!("{:?}", st.g);
    let obs = observe(&st.g).map_err(|p| format!("panic in finalize: {}", p))?;
    if format!("{:?}", st.g) != before {
        return Err("finalization disturbed the generator".into());
    }
    let size = st.r.size();
    let mut exp = expected(&st.r);
    if let Some(d) = st.declared {
        exp.warn = d < 4097;
        if d != size {
            let e = format!("Err({:?})", GeneratorError::FixedSizeMismatch);
            exp.fin = e.clone();
            exp.fin_long = e.clone();
            exp.fin_raw_short_notrunc = e;
        }
    }
    if obs != exp {
        return Err(format!("declared {:?}, fed {} bytes: expected {:?} observed {:?}", st.declared, size, exp, obs));
    }
    Ok(())
}

fn chunk_range(len: usize, k: usize) -> (usize, usize) {
    let a = len * k / 3;
    let b = len * (k + 1) / 3;
    (a, b)
}

fn apply(m: &HintModel, s: &St, a: Act) -> Option<St> {
    if s.bad.is_some() {
        return None;
    }
    let sc = &m.scripts[s.script];
    let mut n = s.clone();
    match a {
        Act::Declare(k, usize_form) => {
            let menu = size_menu(sc);
            let v = menu[k as usize];
            let before = format!("{:?}", n.g);
            let res = if usize_form {
                match usize::try_from(v) {
                    Ok(u) => guarded(|| n.g.set_fixed_input_size_in_usize(u)),
                    Err(_) => return None,
                }
            } else {
                guarded(|| n.g.set_fixed_input_size(v))
            };
            let exp: Result<(), GeneratorError> = if v > MAX {
                Err(GeneratorError::FixedSizeTooLarge)
            } else if s.declared.is_some() && s.declared != Some(v) {
                Err(GeneratorError::FixedSizeMismatch)
            } else {
                Ok(())
            };
            match res {
                Err(p) => n.bad = Some(format!("set_fixed_input_size({}) panicked: {}", v, p)),
                Ok(r) => {
                    if r != exp {
                        n.bad = Some(format!("set_fixed_input_size({}) with {:?} declared returned {:?}, expected {:?}", v, s.declared, r, exp));
                    } else if r.is_err() {
                        if format!("{:?}", n.g) != before {
                            n.bad = Some(format!("refused declaration {} ({:?}) changed the generator", v, r));
                        } else {
                            return None; // refused and unchanged: not a transition
                        }
                    } else {
                        n.declared = Some(v);
                    }
                }
            }
        }
        Act::Skip => {
            if s.skipped || s.chunk > 0 || sc.zero_prefix == 0 {
                return None;
            }
            if let Err(p) = guarded(|| n.g.verif_feed_zero_bytes(sc.zero_prefix)) {
                n.bad = Some(format!("hook panicked: {}", p));
            }
            n.r.skip_zeros(sc.zero_prefix);
            n.skipped = true;
        }
        Act::Feed => {
            if s.chunk >= 3 || (sc.zero_prefix > 0 && !s.skipped) {
                return None;
            }
            let (lo, hi) = chunk_range(sc.bytes.len(), s.chunk);
            let form = FORMS[(s.chunk + s.script + s.resets) % FORMS.len()];
            if let Err(p) = guarded(|| feed(&mut n.g, &sc.bytes[lo..hi], form)) {
                n.bad = Some(format!("update panicked: {}", p));
            }
            n.r.feed_all(&sc.bytes[lo..hi]);
            n.chunk += 1;
        }
        Act::Reset(k) => {
            if s.resets >= m.max_resets || (k as usize) >= m.scripts.len() {
                return None;
            }
            // only reset from states that did something
            if s.chunk == 0 && s.declared.is_none() && !s.skipped {
                return None;
            }
            if let Err(p) = guarded(|| n.g.reset()) {
                n.bad = Some(format!("reset panicked: {}", p));
            }
            n.r = Ctph::new(0);
            n.declared = None;
            n.script = k as usize;
            n.skipped = false;
            n.chunk = 0;
            n.resets += 1;
        }
    }
    m.counter.fetch_add(1, AO::Relaxed);
    Some(n.rekey())
}

impl Model for HintModel {
    type State = St;
    type Action = Act;
    fn init_states(&self) -> Vec<St> {
        self.first_scripts
            .iter()
            .map(|&k| {
                St { g: Generator::new(), r: Ctph::new(0), declared: None, script: k, skipped: false, chunk: 0, resets: 0, bad: None, key: Arc::new(String::new()) }.rekey()
            })
            .collect()
    }
    fn actions(&self, _s: &St, a: &mut Vec<Act>) {
        for k in 0..7u8 {
            a.push(Act::Declare(k, false));
            if k == 2 || k == 5 {
                a.push(Act::Declare(k, true));
            }
        }
        a.push(Act::Skip);
        a.push(Act::Feed);
        for k in 0..self.scripts.len() as u8 {
            a.push(Act::Reset(k));
        }
    }
    fn next_state(&self, s: &St, a: Act) -> Option<St> {
        apply(self, s, a)
    }
    fn properties(&self) -> Vec<Property<Self>> {
        vec![Property::always("finalizations-follow-the-declared-size-model-and-the-reference", |_m, s: &St| judge(s).is_ok())]
    }
}

fn act_str(a: &Act) -> String {
    format!("{:?}", a)
}
fn act_parse(s: &str) -> Option<Act> {
    if s == "Skip" {
        return Some(Act::Skip);
    }
    if s == "Feed" {
        return Some(Act::Feed);
    }
    let (name, rest) = s.split_once('(')?;
    let rest = rest.trim_end_matches(')');
    match name {
        "Reset" => Some(Act::Reset(rest.trim().parse().ok()?)),
        "Declare" => {
            let mut it = rest.split(',');
            let k: u8 = it.next()?.trim().parse().ok()?;
            let u = it.next()?.trim() == "true";
            Some(Act::Declare(k, u))
        }
        _ => None,
    }
}

fn run_path(thorough_scripts: bool, first: usize, path: &[Act]) -> Result<(), String> {
    let m = HintModel { scripts: scripts(thorough_scripts), max_resets: 8, first_scripts: vec![first], counter: Arc::new(AtomicU64::new(0)) };
    let mut s = m.init_states().remove(0);
    judge(&s)?;
    for (i, a) in path.iter().enumerate() {
        if let Some(n) = apply(&m, &s, *a) {
            s = n;
            judge(&s).map_err(|e| format!("after step {} ({:?}, script '{}'): {}", i + 1, a, m.scripts[s.script].name, e))?;
        }
    }
    Ok(())
}

pub fn replay(c: &Value) -> Result<(), String> {
    if c["kind"] == "declare_sweep" {
        return declare_case(c["size"].as_u64().ok_or("size")?, c["pre"].as_u64().ok_or("pre")? as u8);
    }
    let first = c["first_script"].as_u64().ok_or("first_script")? as usize;
    let th = c["thorough_scripts"].as_bool().unwrap_or(false);
    let path: Vec<Act> = c["path"].as_array().ok_or("path")?.iter().map(|v| v.as_str().and_then(act_parse).ok_or("bad action")).collect::<Result<_, _>>()?;
    run_path(th, first, &path)
}

/// The family of declared sizes of the declaration sweep: every value that is special to some way of
/// computing "too large" (a comparison, a quotient, a narrowed quotient, a shift): around every power of two
/// and every small odd multiple of one, around every multiple of 2^38 (where a quotient by 192 leaves 32 bits),
/// whole GiB counts, and the first values above the limit.
pub fn declare_family() -> Vec<u64> {
    let mut v: Vec<u64> = vec![];
    for d in 0..=1024u64 {
        v.push(MAX + d);
        v.push(MAX - d);
        v.push(u64::MAX - d);
        v.push(d);
    }
    for k in 0..64u32 {
        for q in [1u64, 3, 5, 7, 9, 11, 13, 15] {
            if let Some(b) = q.checked_mul(1u64 << k) {
                for e in [-193i64, -192, -191, -2, -1, 0, 1, 2, 191, 192, 193] {
                    if let Some(x) = b.checked_add_signed(e) {
                        v.push(x);
                    }
                }
            }
        }
    }
    for m in 1..=1024u64 {
        for r in [0u64, 1, 191, 192, 193, 1 << 30, (1 << 38) - 1] {
            v.push((m << 38) + r);
        }
    }
    for g in 1..=4096u64 {
        v.push(g << 30);
        v.push((g << 30) + 1);
    }
    v.sort_unstable();
    v.dedup();
    v
}

/// One case of the declaration sweep.  `pre`: 0 = fresh generator, 1 = after 13 bytes were fed, 2 = after 13
/// bytes were fed and the size 13 was declared.
fn declare_case(v: u64, pre: u8) -> Result<(), String> {
    guard_case(|| declare_case_unguarded(v, pre))
}

fn declare_case_unguarded(v: u64, pre: u8) -> Result<(), String> {
    const DATA: &[u8] = b"Hello, World!";
    let mut g = Generator::new();
    if pre >= 1 {
        g.update(DATA);
    }
    if pre >= 2 {
        g.set_fixed_input_size(DATA.len() as u64).map_err(|e| format!("declaring 13 refused: {:?}", e))?;
    }
    let twin = g.clone();
    let before = format!("{:?}", g);
    let declared = if pre >= 2 { Some(DATA.len() as u64) } else { None };
    let exp: Result<(), GeneratorError> = if v > MAX {
        Err(GeneratorError::FixedSizeTooLarge)
    } else if declared.is_some() && declared != Some(v) {
        Err(GeneratorError::FixedSizeMismatch)
    } else {
        Ok(())
    };
    let forms: &[bool] = if usize::try_from(v).is_ok() { &[false, true] } else { &[false] };
    for &usize_form in forms {
        let mut h = g.clone();
        let res = if usize_form { guarded(|| h.set_fixed_input_size_in_usize(v as usize))? } else { guarded(|| h.set_fixed_input_size(v))? };
        if res != exp {
            return Err(format!("set_fixed_input_size{}({}) with {:?} declared after {} bytes returned {:?}, expected {:?}", if usize_form { "_in_usize" } else { "" }, v, declared, if pre >= 1 { 13 } else { 0 }, res, exp));
        }
        if res.is_err() {
            if format!("{:?}", h) != before {
                return Err(format!("refused declaration {} ({:?}) changed the generator", v, res));
            }
            // the refused call leaves no trace: the honest continuation behaves like the twin that never saw it
            let mut t = twin.clone();
            if pre == 0 {
                h.update(DATA);
                t.update(DATA);
            }
            let (a, b) = (guarded(|| h.set_fixed_input_size(13))?, guarded(|| t.set_fixed_input_size(13))?);
            if a != b || a != Ok(()) {
                return Err(format!("after the refused declaration {} the honest declaration 13 returned {:?} (twin: {:?})", v, a, b));
            }
            let (fa, fb) = (guarded(|| h.finalize())?, guarded(|| t.finalize())?);
            if fa != fb || fa.is_err() {
                return Err(format!("after the refused declaration {} finalize gives {:?}, the twin {:?}", v, fa, fb));
            }
        } else {
            // accepted: repeating it is fine, a different one is refused with its specific error
            let again = guarded(|| h.set_fixed_input_size(v))?;
            if again != Ok(()) {
                return Err(format!("repeating the accepted declaration {} returned {:?}", v, again));
            }
            let other = if v == 0 { 1 } else { v - 1 };
            let mis = guarded(|| h.set_fixed_input_size(other))?;
            if mis != Err(GeneratorError::FixedSizeMismatch) {
                return Err(format!("declaring {} after {} was accepted returned {:?}", other, v, mis));
            }
            let fed = if pre >= 1 { 13 } else { 0 };
            let fin = guarded(|| h.finalize())?;
            if v == fed {
                if fin != guarded(|| twin.finalize())? {
                    return Err(format!("finalize with the true size {} declared differs from the undeclared result", v));
                }
            } else if fin != Err(GeneratorError::FixedSizeMismatch) {
                return Err(format!("finalize with {} declared and {} fed returned {:?}", v, fed, fin));
            }
        }
    }
    Ok(())
}

pub fn run(ctx: &Ctx) -> Report {
    let mut rep = Report::new("model_checking");
    let thorough = ctx.tier == Tier::Thorough;
    if let Err(e) = crate::c01::validate_hook(ctx) {
        eprintln!("mc: hook validation failed (machinery error, not a verdict): {}", e);
        std::process::exit(6);
    }
    let sc = scripts(thorough);
    let max_resets = ctx.tier.pick(1usize, 2);
    let mut states = 0u64;
    let mut transitions = 0u64;
    let mut traces = 0u64;
    let mut samples = vec![];
    let mut exhaustive = true;
    // one search per first script (keeps counterexamples short and memory small), in parallel
    struct Out {
        first: usize,
        violations: Vec<Violation>,
        states: u64,
        transitions: u64,
        traces: u64,
        sample: Option<Value>,
        capped: bool,
        space: Value,
        disagree: Option<(u64, u64)>,
    }
    let outs: Vec<Out> = {
        use rayon::prelude::*;
        (0..sc.len())
            .into_par_iter()
            .map(|first| {
                let counter = Arc::new(AtomicU64::new(0));
                let model = HintModel { scripts: sc.clone(), max_resets, first_scripts: vec![first], counter: counter.clone() };
                let sr = explore::run_stateright(model, 2);
                let sr_trans = counter.load(AO::Relaxed);
                let case = |path: &[Act]| json!({"first_script": first, "thorough_scripts": thorough, "script_names": sc.iter().map(|s| s.name).collect::<Vec<_>>(), "path": path.iter().map(act_str).collect::<Vec<_>>()});
                let mut violations = vec![];
                for (name, path) in &sr.discoveries {
                    violations.push(Violation {
                        signature: format!("first='{}' path={:?}", sc[first].name, path),
                        what: run_path(thorough, first, path).err().unwrap_or_else(|| name.clone()),
                        case: case(path),
                    });
                }
                // cross-check and recorded paths with the own BFS (single reset level, to bound memory)
                let mb = HintModel { scripts: sc.clone(), max_resets: max_resets.min(1), first_scripts: vec![first], counter: Arc::new(AtomicU64::new(0)) };
                let b = explore::bfs(&mb, ctx.tier.pick(300_000, 3_000_000), 40);
                let mut traces = 0u64;
                let mut sample = None;
                let mut disagree = None;
                if let Some((name, path)) = &b.violation {
                    if sr.discoveries.is_empty() {
                        violations.push(Violation {
                            signature: format!("first='{}' path={:?}", sc[first].name, path),
                            what: run_path(thorough, first, path).err().unwrap_or_else(|| name.clone()),
                            case: case(path),
                        });
                    }
                } else {
                    if max_resets == 1 && sr.discoveries.is_empty() && sr.unique != b.states {
                        disagree = Some((sr.unique, b.states));
                    }
                    for p in &b.sample_paths {
                        traces += 1;
                        if let Err(e) = run_path(thorough, first, p) {
                            violations.push(Violation { signature: format!("trace first='{}' {:?}", sc[first].name, p), what: e, case: case(p) });
                        }
                    }
                    if let Some(p) = b.sample_paths.first() {
                        sample = Some(case(p));
                    }
                }
                Out {
                    first,
                    violations,
                    states: sr.unique,
                    transitions: sr_trans,
                    traces,
                    sample,
                    capped: b.capped,
                    space: json!({"script": sc[first].name, "states": sr.unique, "transitions": sr_trans, "max_depth": sr.max_depth,
                                  "crosscheck_states": b.states, "crosscheck_transitions": b.transitions, "crosscheck_capped": b.capped}),
                    disagree,
                }
            })
            .collect()
    };
    for o in outs {
        if let Some((a, b)) = o.disagree {
            eprintln!("mc: explorers disagree on C12 (first script {}): {} vs {}", o.first, a, b);
            std::process::exit(5);
        }
        for v in o.violations {
            rep.violation(v);
        }
        states += o.states;
        transitions += o.transitions;
        traces += o.traces;
        if let Some(s) = o.sample {
            samples.push(s);
        }
        if o.capped {
            exhaustive = false;
        }
        rep.set(&format!("space_first_script_{}", o.first), o.space);
    }
    {
        let fam = declare_family();
        let n = fam.len() * 3;
        let acc = par_shards(n, |i, acc: &mut Acc| {
            let (v, pre) = (fam[i / 3], (i % 3) as u8);
            acc.evaluations += 1;
            acc.nontrivial += 1;
            acc.bump(if v > MAX { "too_large" } else { "in_range" });
            if let Err(e) = declare_case(v, pre) {
                acc.violation(format!("declare_sweep size={} pre={}", v, pre), e, json!({"kind": "declare_sweep", "size": v, "pre": pre}));
            } else if i == 0 {
                acc.sample(json!({"kind": "declare_sweep", "size": v, "pre": pre}));
            }
        });
        acc.into_report(&mut rep, "declare_sweep");
    }
    rep.set("states", states);
    rep.set("transitions", transitions);
    rep.set("traces_validated_against_impl", traces);
    rep.set("samples", Value::Array(samples));
    rep.set("max_resets", max_resets);
    rep.set("exhaustive", exhaustive);
    rep.set(
        "rule",
        "declaration sweep: every size of an enumerated family (0..1024, 192 GiB +- 0..1024, u64::MAX - 0..1024, q*2^k + e for k 0..63, q odd <= 15, e in {0, +-1, +-2, +-191..193}, m*2^38 + r for m 1..1024, every whole GiB count 1..4096 and +1) declared (u64 and usize forms) on a fresh generator, after 13 bytes, and after 13 bytes with 13 declared: exactly the documented result; a refused call leaves the Debug rendering unchanged and the honest continuation equals a twin that never saw it; an accepted one can be repeated, refuses a different size with FixedSizeMismatch and finalizes iff it is the true size.  histories over: declare a size from {0, total-1, total, total+1, 192 GiB, 192 GiB+1, u64::MAX} (u64 and usize forms) at any point; in-place zero skip to the script's zero prefix (hook H1); feed the next third of the script (update forms rotate); reset() and start any script; scripts: Hello World, W2^70 (elimination), 96 GiB-448 + W30^64 + 01 (last-piece hash), 192 GiB-448 + W30^64 (exactly the limit), a border crossing, a piece-rich head followed by a long tail without pieces (thorough: four more).  In every state finalize / finalize_without_truncation / finalize_raw / input_size / small-size warning are compared with the declarative reference under the declared-size model; refused declarations must return their specific error and leave the Debug rendering unchanged; finalization must not disturb the generator.  After reset the reference is fresh.",
    );
    rep.assume("sizes of 96 / 192 GiB are reached through hook H1's in-place zero skip (validated at start-up)");
    rep
}
