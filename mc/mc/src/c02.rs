//! C02 — the similarity score equals libfuzzy's fuzzy_compare on every pair,
//! through every comparison entry point.

use crate::common::*;
use crate::corpus::ramp;
use refmodel::text as rt;
use serde_json::{json, Value};
use ssdeep::{
    DualFuzzyHash, FuzzyHash, FuzzyHashCompareTarget, LongDualFuzzyHash, LongFuzzyHash, LongRawFuzzyHash, RawFuzzyHash,
};

pub type Content = (u8, Vec<u8>, Vec<u8>);

/// Evaluate one ordered pair (raw contents) through all entry points; every
/// one must return the oracle's score.  Returns the score.
pub fn score_all_routes(a: &Content, b: &Content) -> Result<u32, String> {
    // a panic escaping from the library through any call below is a violation of this case, not a crash
    guard_case(|| score_all_routes_unguarded(a, b))
}

fn score_all_routes_unguarded(a: &Content, b: &Content) -> Result<u32, String> {
    let exp = refmodel::score(a.0, &a.1, &a.2, b.0, &b.1, &b.2);
    let fits_short = |c: &Content| refmodel::normalize(&c.2).len() <= 32 && c.2.len() <= 32;
    let mut routes: Vec<(&'static str, u32)> = vec![];
    // the string function: raw spelling and normalized spelling
    let (ta, tb) = (rt::format(a.0, &a.1, &a.2), rt::format(b.0, &b.1, &b.2));
    let (na1, na2, nb1, nb2) = (refmodel::normalize(&a.1), refmodel::normalize(&a.2), refmodel::normalize(&b.1), refmodel::normalize(&b.2));
    let (tna, tnb) = (rt::format(a.0, &na1, &na2), rt::format(b.0, &nb1, &nb2));
    let s = guarded(|| ssdeep::compare(&ta, &tb))?.map_err(|e| format!("ssdeep::compare({}, {}) fails: {}", ta, tb, e))?;
    routes.push(("ssdeep::compare(raw texts)", s));
    let s = guarded(|| ssdeep::compare(&tna, &tnb))?.map_err(|e| format!("ssdeep::compare({}, {}) fails: {}", tna, tnb, e))?;
    routes.push(("ssdeep::compare(normalized texts)", s));
    let s = guarded(|| ssdeep::compare(&ta, &tnb))?.map_err(|e| format!("ssdeep::compare mixed fails: {}", e))?;
    routes.push(("ssdeep::compare(raw, normalized)", s));
    // long objects
    let la = guarded(|| LongRawFuzzyHash::new_from_internals_near_raw(a.0, &a.1, &a.2))?;
    let lb = guarded(|| LongRawFuzzyHash::new_from_internals_near_raw(b.0, &b.1, &b.2))?;
    let (lna, lnb) = (la.normalize(), lb.normalize());
    routes.push(("LongFuzzyHash::compare", guarded(|| lna.compare(&lnb))?));
    let equal = na1 == nb1 && na2 == nb2 && a.0 == b.0;
    if !equal {
        routes.push(("LongFuzzyHash::compare_unequal", guarded(|| lna.compare_unequal(&lnb))?));
    }
    let dla = guarded(|| LongDualFuzzyHash::from_raw_form(&la))?;
    let dlb = guarded(|| LongDualFuzzyHash::from_raw_form(&lb))?;
    // reusable target: fresh and re-initialised (dirty) from each operand kind
    let mut t = FuzzyHashCompareTarget::from(&lnb); // dirty: holds the other operand first
    guarded(|| t.init_from(&lna))?;
    routes.push(("target(init_from long).compare(long)", guarded(|| t.compare(&lnb))?));
    routes.push(("target.compare(long dual)", guarded(|| t.compare(&dlb))?));
    let t2 = FuzzyHashCompareTarget::from(&dla);
    routes.push(("target(From<&dual>).compare(long)", guarded(|| t2.compare(&lnb))?));
    let t3 = FuzzyHashCompareTarget::from(lna);
    routes.push(("target(From<hash>).compare(long dual)", guarded(|| t3.compare(&dlb))?));
    let d = a.0 as i32 - b.0 as i32;
    if !equal {
        routes.push(("target.compare_unequal", guarded(|| t.compare_unequal(&lnb))?));
    }
    match d {
        0 => {
            routes.push(("target.compare_near_eq", guarded(|| t.compare_near_eq(&lnb))?));
            if !equal {
                routes.push(("target.compare_unequal_near_eq", guarded(|| t.compare_unequal_near_eq(&lnb))?));
            }
        }
        -1 => routes.push(("target.compare_unequal_near_lt", guarded(|| t.compare_unequal_near_lt(&lnb))?)),
        1 => routes.push(("target.compare_unequal_near_gt", guarded(|| t.compare_unequal_near_gt(&lnb))?)),
        _ => {}
    }
    // short objects when both fit
    if fits_short(a) && fits_short(b) {
        let sa = guarded(|| RawFuzzyHash::new_from_internals_near_raw(a.0, &a.1, &a.2))?;
        let sb = guarded(|| RawFuzzyHash::new_from_internals_near_raw(b.0, &b.1, &b.2))?;
        let (sna, snb) = (FuzzyHash::from(sa), FuzzyHash::from(sb));
        routes.push(("FuzzyHash::compare", guarded(|| sna.compare(&snb))?));
        if !equal {
            routes.push(("FuzzyHash::compare_unequal", guarded(|| sna.compare_unequal(&snb))?));
        }
        let dsb = guarded(|| DualFuzzyHash::from_raw_form(&sb))?;
        let mut ts = FuzzyHashCompareTarget::new();
        guarded(|| ts.init_from(&sna))?;
        routes.push(("target(init_from short).compare(short)", guarded(|| ts.compare(&snb))?));
        routes.push(("target.compare(short dual)", guarded(|| ts.compare(&dsb))?));
        routes.push(("target(long).compare(short)", guarded(|| t.compare(&snb))?));
        let dsa = guarded(|| DualFuzzyHash::from_raw_form(&sa))?;
        let mut td = FuzzyHashCompareTarget::from(&lnb);
        guarded(|| td.init_from(&dsa))?;
        routes.push(("target(init_from short dual).compare(long)", guarded(|| td.compare(&lnb))?));
    }
    // mixed forms: one operand only fits the long form (block hash 2 above 32 symbols), the other is given in the
    // short form; the target is not generic, so every width the operand type suggests must be ignored
    if fits_short(b) && !fits_short(a) {
        let sb = guarded(|| RawFuzzyHash::new_from_internals_near_raw(b.0, &b.1, &b.2))?;
        let snb = FuzzyHash::from(sb);
        let dsb = guarded(|| DualFuzzyHash::from_raw_form(&sb))?;
        routes.push(("target(long-only).compare(short)", guarded(|| t.compare(&snb))?));
        routes.push(("target(long-only).compare(short dual)", guarded(|| t.compare(&dsb))?));
        if !equal {
            routes.push(("target(long-only).compare_unequal(short)", guarded(|| t.compare_unequal(&snb))?));
        }
        match d {
            0 => {
                routes.push(("target(long-only).compare_near_eq(short)", guarded(|| t.compare_near_eq(&snb))?));
                if !equal {
                    routes.push(("target(long-only).compare_unequal_near_eq(short)", guarded(|| t.compare_unequal_near_eq(&snb))?));
                }
            }
            -1 => routes.push(("target(long-only).compare_unequal_near_lt(short)", guarded(|| t.compare_unequal_near_lt(&snb))?)),
            1 => routes.push(("target(long-only).compare_unequal_near_gt(short)", guarded(|| t.compare_unequal_near_gt(&snb))?)),
            _ => {}
        }
        // the other direction: a target that last held the short operand, compared with the long-only one
        let mut tb = FuzzyHashCompareTarget::from(&lna);
        guarded(|| tb.init_from(&snb))?;
        routes.push(("target(init_from short over long-only).compare(long-only)", guarded(|| tb.compare(&lna))?));
        let tb2 = FuzzyHashCompareTarget::from(&dsb);
        routes.push(("target(From<&short dual>).compare(long-only)", guarded(|| tb2.compare(&lna))?));
    }
    // the checked position-array entry point, at the effective log block size (31 for block hash 2 at the largest size)
    {
        use ssdeep::internal_comparison::{BlockHashPositionArray, BlockHashPositionArrayImpl};
        let per = |x: &[u8], y: &[u8], eff: u8| -> Result<u32, String> {
            let mut pa = BlockHashPositionArray::new();
            guarded(|| pa.init_from(x))?;
            guarded(|| pa.score_strings(y, eff))
        };
        let pa_score: Option<u32> = match d {
            0 if !equal => Some(per(&na1, &nb1, a.0)?.max(per(&na2, &nb2, a.0 + 1)?)),
            -1 => Some(per(&na2, &nb1, b.0)?),
            1 => Some(per(&na1, &nb2, a.0)?),
            _ => None,
        };
        if let Some(s) = pa_score {
            routes.push(("BlockHashPositionArray::score_strings at the effective block size", s));
        }
    }
    for (name, s) in &routes {
        if *s != exp {
            return Err(format!("{} = {} but fuzzy_compare = {}   [{} | {}]", name, s, exp, ta, tb));
        }
    }
    Ok(exp)
}

pub fn cj(c: &Content) -> Value {
    json!({"log": c.0, "bh1": hex(&c.1), "bh2": hex(&c.2), "text": rt::format(c.0, &c.1, &c.2)})
}
pub fn cparse(v: &Value) -> Option<Content> {
    Some((v["log"].as_u64()? as u8, unhex(v["bh1"].as_str()?), unhex(v["bh2"].as_str()?)))
}

pub fn replay(c: &Value) -> Result<(), String> {
    if c["bad_left"].is_string() {
        let mut acc = Acc::default();
        string_function_errors(&mut acc);
        return match acc.violations.first() {
            Some(v) => Err(v.what.clone()),
            None => Ok(()),
        };
    }
    let a = cparse(&c["a"]).ok_or("a")?;
    let b = cparse(&c["b"]).ok_or("b")?;
    score_all_routes(&a, &b).map(|_| ())
}

fn eval(acc: &mut Acc, a: &Content, b: &Content, tag: &str) {
    acc.evaluations += 1;
    acc.nontrivial += 1;
    match score_all_routes(a, b) {
        Ok(s) => acc.bump(&format!("score={:03}", s)),
        Err(e) => acc.violation(
            format!("{} {} | {}", tag, rt::format(a.0, &a.1, &a.2), rt::format(b.0, &b.1, &b.2)),
            e,
            json!({"a": cj(a), "b": cj(b)}),
        ),
    }
}

/// 24 content templates: (a.bh1, a.bh2, b.bh1, b.bh2)
fn templates() -> Vec<(Vec<u8>, Vec<u8>, Vec<u8>, Vec<u8>)> {
    let x = ramp(20, 0);
    let mut x_edit = x.clone();
    x_edit[10] = 63;
    let mut x_ins = x.clone();
    x_ins.insert(5, 62);
    let y = ramp(14, 30);
    let mut y_edit = y.clone();
    y_edit[3] = 0;
    let runs: Vec<u8> = {
        let mut v = ramp(8, 3);
        v.extend(vec![9u8; 7]);
        v.extend(ramp(6, 40));
        v
    };
    let runs2: Vec<u8> = {
        let mut v = ramp(8, 3);
        v.extend(vec![9u8; 4]);
        v.extend(ramp(6, 40));
        v
    };
    let long40 = ramp(40, 2);
    let mut long40e = long40.clone();
    long40e[20] = 0;
    let junk = ramp(15, 45);
    let full = ramp(64, 0);
    let mut full_e = full.clone();
    full_e[63] = 63;
    full_e[0] = 63;
    vec![
        (x.clone(), y.clone(), x.clone(), y.clone()),              // identical
        (runs.clone(), y.clone(), runs2.clone(), y.clone()),       // identical only after normalisation
        (x.clone(), y.clone(), x_edit.clone(), junk.clone()),      // similar in bh1 only
        (junk.clone(), y.clone(), x.clone(), y_edit.clone()),      // similar in bh2 only
        (x.clone(), y.clone(), y.clone(), x_edit.clone()),         // crossed: a.bh2 ~ b.bh1 (for lt), a.bh1 ~ b.bh2 (for gt)
        (y.clone(), x.clone(), x_ins.clone(), y_edit.clone()),     // crossed the other way
        (x.clone(), y.clone(), junk.clone(), ramp(9, 50)),         // no common 7-gram
        (ramp(6, 0), ramp(6, 0), ramp(6, 0), ramp(5, 0)),          // lengths < 7
        (vec![], vec![], vec![], vec![]),                          // empty, identical
        (vec![], vec![], x.clone(), vec![]),                       // empty vs non-empty
        (x.clone(), long40.clone(), x_edit.clone(), long40e.clone()), // block hash 2 longer than 32
        (full.clone(), long40.clone(), full_e.clone(), long40.clone()),
        (ramp(7, 0), vec![], ramp(7, 0), vec![1]),                 // exactly one window, equal bh1
        (ramp(7, 0), vec![], ramp(8, 0), vec![]),                  // minimal match: cap at small sizes
        (ramp(32, 0), ramp(32, 9), ramp(32, 1), ramp(32, 10)),     // shifted by one
        (x.clone(), x.clone(), x_edit.clone(), x_ins.clone()),
        (runs.clone(), runs.clone(), x.clone(), runs2.clone()),
        (vec![0, 0, 0, 1, 1, 1, 0, 0, 0, 1, 1, 1, 2], vec![], vec![0, 0, 0, 1, 1, 1, 0, 0, 0, 1, 1, 1, 3], vec![]),
        (full.clone(), ramp(32, 5), full.clone(), ramp(31, 5)),
        (x.clone(), vec![], vec![], x.clone()),
        (long40.clone(), long40.clone(), long40e.clone(), long40e.clone()),
        (ramp(8, 0), ramp(8, 20), ramp(9, 0), ramp(9, 20)),
        (x_ins.clone(), y.clone(), x.clone(), y.clone()),
        (ramp(64, 1), ramp(64, 1), ramp(64, 2), ramp(64, 3)),
    ]
}

fn single_edits(x: &[u8], stride: usize) -> Vec<Vec<u8>> {
    let syms = [0u8, 63, 33];
    let mut out = vec![];
    let mut k = 0usize;
    for pos in 0..=x.len() {
        for &s in &syms {
            k += 1;
            if k % stride != 0 {
                continue;
            }
            if x.len() < 64 {
                let mut v = x.to_vec();
                v.insert(pos, s);
                out.push(v);
            }
            if pos < x.len() {
                let mut v = x.to_vec();
                v[pos] = s;
                out.push(v);
            }
        }
        if pos < x.len() && (pos % stride == 0) {
            let mut v = x.to_vec();
            v.remove(pos);
            out.push(v);
        }
    }
    out
}

/// The string function with one / two malformed operands: an error naming the first malformed side,
/// carrying the same origin as parsing that operand as a long normalized hash.
fn string_function_errors(acc: &mut Acc) {
    use ssdeep::{ParseErrorInfo, ParseErrorSide};
    let good = "3:ABCDEFGH:IJKL";
    let bads = ["", "3", "4:A:B", "3:A", "3:@:B", "3:A:@", "03:A:B", "4294967296:A:B", "3:ABCD:EFGH:I"];
    for bad in bads.iter() {
        let direct = bad.parse::<LongFuzzyHash>();
        let e = match direct {
            Err(e) => e,
            Ok(_) => continue,
        };
        for (l, r, side) in [(*bad, good, ParseErrorSide::Left), (good, *bad, ParseErrorSide::Right), (*bad, *bad, ParseErrorSide::Left)] {
            acc.evaluations += 1;
            acc.nontrivial += 1;
            match guarded(|| ssdeep::compare(l, r)) {
                Ok(Err(pe)) if pe.side() == side && pe.origin() == e.origin() && pe.kind() == e.kind() => acc.bump("error-names-the-side"),
                other => acc.violation(
                    format!("string function error path {:?} | {:?}", l, r),
                    format!("ssdeep::compare({:?}, {:?}) = {:?}, expected an error on the {:?} side with origin {:?}", l, r, other.map(|x| x.map_err(|e| format!("{}", e))), side, e.origin()),
                    json!({"a": null, "b": null, "bad_left": l, "bad_right": r}),
                ),
            }
        }
    }
}

pub fn run(ctx: &Ctx) -> Report {
    let mut rep = Report::new("model_checking");
    let thorough = ctx.tier == Tier::Thorough;
    {
        let mut acc = Acc::default();
        string_function_errors(&mut acc);
        acc.into_report(&mut rep, "string_function_error_path");
    }
    // P1: all 31 x 31 block size pairs x content templates
    let tpl = templates();
    let acc = par_shards(31 * 31, |i, acc| {
        let (la, lb) = ((i / 31) as u8, (i % 31) as u8);
        for (k, t) in tpl.iter().enumerate() {
            let a: Content = (la, t.0.clone(), t.1.clone());
            let b: Content = (lb, t.2.clone(), t.3.clone());
            eval(acc, &a, &b, "P1");
            if la == 3 && lb == 4 && k == 4 {
                acc.sample(json!({"a": cj(&a), "b": cj(&b)}));
            }
        }
    });
    acc.into_report(&mut rep, "P1_all_block_size_pairs_x_templates");

    // P2: relation x log x (x, every single edit of x; strided double edits)
    let logs: Vec<u8> = vec![0, 1, 2, 3, 4, 5, 29, 30];
    let base_lens: Vec<usize> = vec![7, 8, 31, 32, 33, 63, 64];
    let other = ramp(9, 47);
    let jobs: Vec<(u8, usize, i32, u8)> = {
        let mut v = vec![];
        for &l in &logs {
            for &bl in &base_lens {
                for rel in [-1i32, 0, 1] {
                    for fam in 0..2u8 {
                        v.push((l, bl, rel, fam));
                    }
                }
            }
        }
        v
    };
    let acc = par_shards(jobs.len(), |i, acc| {
        let (log, bl, rel, fam) = jobs[i];
        // base string: run-free ramp, or a low-entropy normalized string (runs of three of two symbols)
        let x: Vec<u8> = if fam == 0 { ramp(bl, 0) } else { (0..bl).map(|k| if (k / 3) % 2 == 0 { 0u8 } else { 63 }).collect() };
        let mut ys = single_edits(&x, 1);
        // double edits: every single edit of a strided subset of single edits
        let stride2 = if thorough { 1 } else { 5 };
        let firsts: Vec<Vec<u8>> = ys.iter().step_by(stride2).cloned().collect();
        for f in &firsts {
            ys.extend(single_edits(f, if thorough { 1 } else { 2 }));
        }
        ys.push(x.clone());
        ys.sort();
        ys.dedup();
        for y in &ys {
            if y.len() > 64 {
                continue;
            }
            let (a, b): (Content, Content) = match rel {
                0 => ((log, x.clone(), other.clone()), (log, y.clone(), other.clone())),
                -1 => {
                    if log >= 30 {
                        continue;
                    }
                    ((log, other.clone(), x.clone()), (log + 1, y.clone(), other.clone()))
                }
                _ => {
                    if log == 0 {
                        continue;
                    }
                    ((log, x.clone(), other.clone()), (log - 1, other.clone(), y.clone()))
                }
            };
            eval(acc, &a, &b, "P2");
            // the same strings in the block hash 2 position at equal sizes (effective log + 1; 31 at the largest size)
            if rel == 0 {
                let a2: Content = (log, other.clone(), x.clone());
                let b2: Content = (log, ramp(9, 20), y.clone());
                eval(acc, &a2, &b2, "P2-bh2");
                // identical block hash 1 (scored but capped at small block sizes), similar block hash 2
                let same1 = ramp(11, 33);
                let a3: Content = (log, same1.clone(), x.clone());
                let b3: Content = (log, same1, y.clone());
                eval(acc, &a3, &b3, "P2-same-bh1");
            }
        }
        if i == 10 {
            acc.sample(json!({"relation": rel, "log": log, "base_len": bl, "edited_strings": ys.len()}));
        }
    });
    acc.into_report(&mut rep, "P2_relations_x_logs_x_single_and_double_edits");

    // P3: run insertion / rotation (raw spellings that only agree after normalisation)
    let mut p3: Vec<(Content, Content)> = vec![];
    for &log in &[0u8, 3, 4, 30] {
        let base = ramp(24, 0);
        for pos in [0usize, 5, 12, 23] {
            for extra in [1usize, 2, 3, 4, 10, 40] {
                let mut v = base.clone();
                let sym = v[pos];
                for _ in 0..extra {
                    if v.len() < 64 {
                        v.insert(pos, sym);
                    }
                }
                p3.push(((log, base.clone(), vec![]), (log, v.clone(), vec![])));
                p3.push(((log, v.clone(), ramp(10, 3)), (log, base.clone(), ramp(10, 3))));
            }
        }
        for rot in 1..24usize {
            let mut r = base.clone();
            r.rotate_left(rot);
            p3.push(((log, base.clone(), vec![]), (log, r, vec![])));
        }
    }
    let acc = par_shards(p3.len(), |i, acc| {
        eval(acc, &p3[i].0, &p3[i].1, "P3");
        eval(acc, &p3[i].1, &p3[i].0, "P3");
    });
    acc.into_report(&mut rep, "P3_run_insertion_and_rotation");
    // P4: every reachable (length, length, edit distance) triple: a common part of c >= 7 symbols and two tails that
    // share nothing (so LCS = c exactly), for ALL 7 <= l1, l2 <= 64 and ALL 7 <= c <= min(l1, l2)
    let acc = par_shards(58 * 58, |i, acc| {
        let (l1, l2) = (7 + i / 58, 7 + i % 58);
        for c in 7..=l1.min(l2) {
            let common: Vec<u8> = (0..c).map(|k| (2 + (k * 7 + c) % 60) as u8).collect();
            let tail_a: Vec<u8> = (0..l1 - c).map(|k| (k % 2) as u8).collect();
            let tail_b: Vec<u8> = (0..l2 - c).map(|k| 62 + (k % 2) as u8).collect();
            // the common part first (even c) or last (odd c)
            let (x, y): (Vec<u8>, Vec<u8>) = if c % 2 == 0 {
                ([common.clone(), tail_a].concat(), [common.clone(), tail_b].concat())
            } else {
                ([tail_a, common.clone()].concat(), [tail_b, common.clone()].concat())
            };
            if !refmodel::is_normalized(&x) || !refmodel::is_normalized(&y) {
                continue;
            }
            let log = if (l1 + l2 + c) % 3 == 0 { 4u8 } else { 10 };
            eval(acc, &(log, x.clone(), vec![]), &(log, y.clone(), vec![]), "P4");
            if (l1 + c) % 4 == 0 && y.len() <= 64 {
                // crossing: a.bh2 ~ b.bh1 one size apart
                eval(acc, &(log, vec![], x.clone()), &(log + 1, y.clone(), vec![]), "P4-cross");
            }
            if l1 == 41 && l2 == 41 && c == 25 {
                acc.sample(json!({"a": cj(&(log, x.clone(), vec![])), "b": cj(&(log, y.clone(), vec![]))}));
            }
        }
    });
    acc.into_report(&mut rep, "P4_every_length_length_distance_triple");
    rep.set("exhaustive", true);
    rep.set(
        "rule",
        "P4: ALL (l1, l2, c) with 7 <= l1, l2 <= 64 and 7 <= c <= min(l1, l2): two block hashes of lengths l1 and l2 whose longest common subsequence is exactly the shared part of c symbols (tails over disjoint symbols), i.e. every reachable (length, length, edit distance) triple of the score formula, at equal block sizes (and a quarter of them crossing sizes).  P1: all 31x31 block-size pairs x 24 content templates (identical; identical only after normalisation; similar in one block hash; crossed a.bh2~b.bh1 and the mirror; no common 7-gram; lengths < 7; empty; block hash 2 longer than 32; capacity lengths); P2: relation in {eq, lt, gt} x log in {0..5, 29, 30} x base strings of length {7,8,31,32,33,63,64} against EVERY single edit (insert / replace with 3 symbols / delete at every position) and strided double edits, in the block hash 1 and block hash 2 positions (the latter also with an identical block hash 1 of 11 symbols, whose capped score must not hide a better block hash 2); P3: run insertion and rotations.  Every pair is evaluated through up to 19 entry points (string function with raw / normalised / mixed spellings, FuzzyHash / LongFuzzyHash compare and compare_unequal, reusable target initialised by init_from (dirty) / From from short, long, dual operands, compare_near_eq / compare_unequal*), all of which must equal the oracle (DP edit distance + naive 7-gram scan + the ssdeep formula and cap).",
    );
    rep
}
