//! C07 — dual hashes are a lossless, canonical encoding of raw plus normalized.

use crate::common::*;
use crate::corpus;
use crate::hashobj::*;
use refmodel::text as rt;
use serde_json::{json, Value};
use ssdeep::{DualFuzzyHash, FuzzyHash, LongDualFuzzyHash, LongFuzzyHash, LongRawFuzzyHash, RawFuzzyHash};
use std::cmp::Ordering;

/// All construction routes for one raw hash, plus decompression and the
/// normalised part.  `dirty` is a raw content previously held by re-used
/// destination objects.
fn single<D: Dual>(log: u8, bh1: &[u8], bh2: &[u8], dirty: &(u8, Vec<u8>, Vec<u8>)) -> Result<D, String>
where
    D::Raw: Plain,
    D::Norm: Plain,
{
    let raw: D::Raw = guarded(|| D::Raw::near_raw(log, bh1, bh2))?;
    let (n1, n2) = (refmodel::normalize(bh1), refmodel::normalize(bh2));
    let text = rt::format(log, bh1, bh2);
    let dirty_raw: D::Raw = D::Raw::near_raw(dirty.0, &dirty.1, &dirty.2);
    // construction routes
    let a = guarded(|| D::from_raw(&raw))?;
    let mut b = guarded(|| D::from_raw(&dirty_raw))?; // dirty object re-initialised
    guarded(|| b.init_from_raw(&raw))?;
    let c = guarded(|| D::near_raw(log, bh1, bh2))?;
    let c2 = guarded(|| D::from_internals(3u32 << log, bh1, bh2))?;
    let d = guarded(|| D::parse_str(&text))?.map_err(|e| format!("parse({}): {:?}", text, e))?;
    let e = guarded(|| D::parse_bytes(text.as_bytes()))?.map_err(|e| format!("from_bytes({}): {:?}", text, e))?;
    let routes: [(&str, &D); 6] = [
        ("from_raw_form", &a),
        ("init_from_raw_form into a dirty object", &b),
        ("new_from_internals_near_raw", &c),
        ("new_from_internals", &c2),
        ("str::parse", &d),
        ("from_bytes", &e),
    ];
    let ha = hash_stream(&a);
    let da = guarded(|| format!("{:?}", a))?;
    for (name, x) in routes.iter() {
        if !guarded(|| x.valid())? {
            return Err(format!("{}: dual hash fails the validity check", name));
        }
        if **x != a || a != **x {
            return Err(format!("{}: not == the dual built by from_raw_form", name));
        }
        if hash_stream(*x) != ha {
            return Err(format!("{}: Hash output differs from from_raw_form's", name));
        }
        if x.cmp(&&a) != Ordering::Equal || a.cmp(*x) != Ordering::Equal {
            return Err(format!("{}: cmp() is not Equal against from_raw_form's", name));
        }
        if guarded(|| format!("{:?}", x))? != da {
            return Err(format!("{}: Debug rendering differs", name));
        }
        // decompression
        let back = guarded(|| x.to_raw())?;
        if !back.valid() || !back.ref_valid() || back != raw || !back.full_eq(&raw) {
            return Err(format!("{}: to_raw_form() gives {} expected {}", name, back, raw));
        }
        let mut dst = dirty_raw;
        guarded(|| x.into_mut_raw(&mut dst))?;
        if !dst.valid() || dst != raw || !dst.full_eq(&raw) {
            return Err(format!("{}: into_mut_raw_form(dirty destination) gives {:?} expected {}", name, dst, raw));
        }
        if guarded(|| x.to_raw_string())? != text {
            return Err(format!("{}: to_raw_form_string() != {}", name, text));
        }
        // the formatted dual hash exposes both texts (whatever its exact layout)
        let shown = guarded(|| format!("{}", x))?;
        if !shown.contains(&text) || !shown.contains(&rt::format(log, &n1, &n2)) {
            return Err(format!("{}: Display output {} does not contain the raw text {} and the normalized text", name, shown, text));
        }
        // normalised part
        let n = x.as_norm();
        if !n.valid() || !n.ref_valid() || n.log() != log || n.bh1() != &n1[..] || n.bh2() != &n2[..] {
            return Err(format!("{}: as_normalized() gives {} expected {}", name, n, rt::format(log, &n1, &n2)));
        }
        let tn = x.to_norm();
        if !tn.full_eq(n) || guarded(|| x.to_norm_string())? != rt::format(log, &n1, &n2) {
            return Err(format!("{}: to_normalized()/to_normalized_string() disagree", name));
        }
        if x.log() != log {
            return Err(format!("{}: log block size", name));
        }
    }
    // clearing the reverse-normalization data yields the dual of the normalised hash
    let mut cleared = a;
    guarded(|| cleared.normalize_in_place())?;
    let norm_as_raw: D::Raw = D::Raw::near_raw(log, &n1, &n2);
    let dual_of_norm = guarded(|| D::from_raw(&norm_as_raw))?;
    let norm_obj: D::Norm = D::Norm::near_raw(log, &n1, &n2);
    let dual_from_norm = guarded(|| D::from_norm(&norm_obj))?;
    if !cleared.valid() || cleared != dual_of_norm || cleared != dual_from_norm || hash_stream(&cleared) != hash_stream(&dual_of_norm) {
        return Err("normalize_in_place() is not the dual of the normalized hash".into());
    }
    if !cleared.is_normalized() || cleared.to_raw() != norm_as_raw {
        return Err("normalize_in_place(): result not normalized / wrong raw form".into());
    }
    Ok(a)
}

fn single_ty(long: bool, log: u8, a: &[u8], b: &[u8], dirty: &(u8, Vec<u8>, Vec<u8>)) -> Result<(), String> {
    // a panic escaping from the library through any call below is a violation of this case, not a crash
    guard_case(|| single_ty_unguarded(long, log, a, b, dirty))
}

fn single_ty_unguarded(long: bool, log: u8, a: &[u8], b: &[u8], dirty: &(u8, Vec<u8>, Vec<u8>)) -> Result<(), String> {
    if long {
        single::<LongDualFuzzyHash>(log, a, b, dirty).map(|_| ())
    } else {
        single::<DualFuzzyHash>(log, a, b, dirty).map(|_| ())
    }
}

/// a == b  <=>  raw(a) == raw(b), with Hash and Ord consistent, for a pair.
fn pair<D: Dual>(x: &(u8, Vec<u8>, Vec<u8>), y: &(u8, Vec<u8>, Vec<u8>)) -> Result<bool, String> {
    let rx: D::Raw = D::Raw::near_raw(x.0, &x.1, &x.2);
    let ry: D::Raw = D::Raw::near_raw(y.0, &y.1, &y.2);
    let dx = guarded(|| D::from_raw(&rx))?;
    let dy = guarded(|| D::parse_str(&rt::format(y.0, &y.1, &y.2)))?.map_err(|e| format!("{:?}", e))?;
    let raw_eq = x == y;
    if (dx == dy) != raw_eq || (dy == dx) != raw_eq {
        return Err(format!("== is {} but raw hashes are {}", dx == dy, if raw_eq { "equal" } else { "different" }));
    }
    if (dx.cmp(&dy) == Ordering::Equal) != raw_eq || dx.cmp(&dy) != dy.cmp(&dx).reverse() {
        return Err("cmp() inconsistent with raw equality / not antisymmetric".into());
    }
    if raw_eq && hash_stream(&dx) != hash_stream(&dy) {
        return Err("equal dual hashes with different Hash output".into());
    }
    // "hash as equal if and only if the raw hashes are equal": different raw hashes must not feed the very same
    // bytes to the hasher (that would be a collision for EVERY hasher, not a chance one)
    if !raw_eq && hash_stream(&dx) == hash_stream(&dy) {
        return Err("different dual hashes feed identical bytes to the Hasher (they hash as equal under every hasher)".into());
    }
    let _ = rx != ry;
    Ok(raw_eq)
}

fn pair_ty(long: bool, x: &(u8, Vec<u8>, Vec<u8>), y: &(u8, Vec<u8>, Vec<u8>)) -> Result<bool, String> {
    // a panic escaping from the library through any call below is a violation of this case, not a crash
    guard_case(|| pair_ty_unguarded(long, x, y))
}

fn pair_ty_unguarded(long: bool, x: &(u8, Vec<u8>, Vec<u8>), y: &(u8, Vec<u8>, Vec<u8>)) -> Result<bool, String> {
    if long {
        pair::<LongDualFuzzyHash>(x, y)
    } else {
        pair::<DualFuzzyHash>(x, y)
    }
}

fn triple(v: &Value) -> Option<(u8, Vec<u8>, Vec<u8>)> {
    Some((v["log"].as_u64()? as u8, unhex(v["bh1"].as_str()?), unhex(v["bh2"].as_str()?)))
}
fn tj(x: &(u8, Vec<u8>, Vec<u8>)) -> Value {
    json!({"log": x.0, "bh1": hex(&x.1), "bh2": hex(&x.2), "text": rt::format(x.0, &x.1, &x.2)})
}

pub fn replay(c: &Value) -> Result<(), String> {
    let long = c["long"].as_bool().ok_or("long")?;
    match c["kind"].as_str() {
        Some("single") => {
            let x = triple(&c["raw"]).ok_or("raw")?;
            let d = triple(&c["dirty"]).ok_or("dirty")?;
            single_ty(long, x.0, &x.1, &x.2, &d)
        }
        Some("pair") => pair_ty(long, &triple(&c["a"]).ok_or("a")?, &triple(&c["b"]).ok_or("b")?).map(|_| ()),
        _ => Err("bad case".into()),
    }
}

/// The pair corpus: groups sharing a normalised part with different raw runs
/// in block hash 1 only, block hash 2 only, both; plus unrelated hashes.
fn pair_corpus(cap2: usize) -> Vec<(u8, Vec<u8>, Vec<u8>)> {
    let mut v = vec![];
    let runs = [3usize, 4, 5, 7, 8, 9, 12];
    for &log in &[0u8, 5] {
        for &r1 in &runs {
            for &r2 in &runs {
                let mut a = vec![9u8, 10];
                a.extend(std::iter::repeat(0u8).take(r1));
                a.extend([11u8, 12]);
                let mut b = vec![20u8];
                b.extend(std::iter::repeat(63u8).take(r2));
                v.push((log, a.clone(), b.clone()));
                // two runs in block hash 1
                let mut a2 = a.clone();
                a2.extend(std::iter::repeat(5u8).take(r2));
                v.push((log, a2, b.clone()));
            }
        }
        // equal block hash 1, block hash 2 differs only in a run length near the capacity
        for l in (cap2 - 6)..=cap2 {
            v.push((log, vec![1, 2, 3], vec![7u8; l]));
            let mut t = corpus::ramp(cap2 - l, 3);
            t.extend(vec![7u8; l]);
            v.push((log, vec![1, 2, 3], t));
        }
        for l in 58..=64usize {
            v.push((log, vec![0u8; l], vec![]));
        }
        // the same run position in both block hashes, the removed characters split differently between them
        for e1 in 0..=5usize {
            for e2 in 0..=5usize {
                let mut a = vec![1u8, 1, 1];
                a.extend(vec![2u8; 3 + e1]);
                let mut b = vec![3u8, 3, 3];
                b.extend(vec![4u8; 3 + e2]);
                v.push((log, a.clone(), b.clone()));
                // and two long runs in each
                if e1 <= 2 && e2 <= 2 {
                    let mut a2 = vec![1u8; 4 + e1];
                    a2.extend(vec![2u8; 4 + e2]);
                    let mut b2 = vec![3u8; 4 + e2];
                    b2.extend(vec![4u8; 4 + e1]);
                    v.push((log, a2, b2));
                }
            }
        }
    }
    v.sort();
    v.dedup();
    v
}

pub fn run(ctx: &Ctx) -> Report {
    let mut rep = Report::new("model_checking");
    let thorough = ctx.tier == Tier::Thorough;
    for long in [false, true] {
        let cap2 = if long { 64 } else { 32 };
        let corp = corpus::hash_corpus(cap2, thorough);
        // dirty destinations: the longest-run hash, and an RLE-heavy one
        let dirt: Vec<(u8, Vec<u8>, Vec<u8>)> = vec![
            (30, vec![63; 64], vec![63; cap2]),
            (7, {
                let mut v = vec![];
                for k in 0..8u8 {
                    v.extend(vec![k + 1; 8]);
                }
                v
            }, {
                let mut v = vec![];
                for k in 0..(cap2 / 8) as u8 {
                    v.extend(vec![k + 40; 8]);
                }
                v
            }),
        ];
        let shards = 128;
        let per = (corp.len() + shards - 1) / shards;
        let acc = par_shards(shards, |s, acc| {
            for i in (s * per)..((s + 1) * per).min(corp.len()) {
                let (log, a, b) = &corp[i];
                for dz in &dirt {
                    acc.evaluations += 1;
                    if let Err(e) = single_ty(long, *log, a, b, dz) {
                        acc.violation(
                            format!("{} raw={}", if long { "LongDualFuzzyHash" } else { "DualFuzzyHash" }, rt::format(*log, a, b)),
                            e,
                            json!({"kind":"single","long":long,"raw":tj(&corp[i]),"dirty":tj(dz)}),
                        );
                        break;
                    }
                }
                acc.nontrivial += 1;
                let rle1 = refmodel_rle_symbols(a);
                acc.max("max_rle_symbols_in_block_hash_1", rle1 as u64);
                acc.bump(&format!("rle_symbols_bh1={:02}", rle1));
                if i == corp.len() / 3 {
                    acc.sample(json!({"kind":"single","long":long,"raw":tj(&corp[i])}));
                }
            }
        });
        acc.into_report(&mut rep, if long { "routes_LongDualFuzzyHash" } else { "routes_DualFuzzyHash" });
        // all pairs
        let pc = pair_corpus(cap2);
        let n = pc.len();
        let acc = par_shards(n, |i, acc| {
            for j in 0..n {
                acc.evaluations += 1;
                acc.nontrivial += 1;
                match pair_ty(long, &pc[i], &pc[j]) {
                    Ok(eq) => acc.bump(if eq { "equal" } else if refmodel::normalize(&pc[i].1) == refmodel::normalize(&pc[j].1) && refmodel::normalize(&pc[i].2) == refmodel::normalize(&pc[j].2) && pc[i].0 == pc[j].0 { "different-raw-same-normalized" } else { "different" }),
                    Err(e) => acc.violation(
                        format!("{} pair {} | {}", if long { "LongDualFuzzyHash" } else { "DualFuzzyHash" }, rt::format(pc[i].0, &pc[i].1, &pc[i].2), rt::format(pc[j].0, &pc[j].1, &pc[j].2)),
                        e,
                        json!({"kind":"pair","long":long,"a":tj(&pc[i]),"b":tj(&pc[j])}),
                    ),
                }
            }
            if i == 1 {
                acc.sample(json!({"kind":"pair","long":long,"a":tj(&pc[i]),"b":tj(&pc[0])}));
            }
        });
        acc.into_report(&mut rep, if long { "all_pairs_LongDualFuzzyHash" } else { "all_pairs_DualFuzzyHash" });
    }
    rep.set("exhaustive", true);
    rep.set(
        "rule",
        "every raw hash of HASH (both capacities; every run length at every position i.e. 0..16 RLE symbols, several runs, runs ending at the capacity) is turned into a dual hash through six routes (from_raw_form, init_from_raw_form into each of two dirty objects, new_from_internals_near_raw, new_from_internals, str::parse, from_bytes); all must be valid, ==, hash and order as equal, render identically, decompress (to_raw_form, into_mut_raw_form into a dirty destination, text) to exactly the raw hash and expose its reference normalization; normalize_in_place gives the dual of the normalized hash.  All pairs of a corpus of groups sharing a normalized part (incl. groups whose removed characters are split differently between the two block hashes at the same run position): a == b <=> raw equal <=> equal ordering <=> the same bytes fed to the Hasher.  Cases distinct by construction.",
    );
    rep
}

/// number of RLE symbols a raw block hash needs (vacuity counter only)
fn refmodel_rle_symbols(v: &[u8]) -> usize {
    let mut n = 0;
    let mut i = 0;
    while i < v.len() {
        let mut j = i;
        while j < v.len() && v[j] == v[i] {
            j += 1;
        }
        let run = j - i;
        if run > 3 {
            n += (run - 3 + 3) / 4;
        }
        i = j;
    }
    n
}
