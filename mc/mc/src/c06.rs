//! C06 — normalization collapses runs to three, idempotently, on every route.

use crate::common::*;
use crate::corpus;
use crate::hashobj::*;
use refmodel::text as rt;
use serde_json::{json, Value};
use ssdeep::{DualFuzzyHash, FuzzyHash, LongDualFuzzyHash, LongFuzzyHash, LongRawFuzzyHash, RawFuzzyHash};

macro_rules! routes {
    ($name:ident, $raw:ty, $norm:ty, $dual:ty) => {
        fn $name(log: u8, bh1: &[u8], bh2: &[u8]) -> Result<bool, String> {
            // a panic escaping from the library through any call below is a violation of this case, not a crash
            guard_case(|| {
            let raw: $raw = guarded(|| <$raw>::new_from_internals_near_raw(log, bh1, bh2))?;
            let (n1, n2) = (refmodel::normalize(bh1), refmodel::normalize(bh2));
            let changed = n1 != bh1 || n2 != bh2;
            let exp: $norm = guarded(|| <$norm>::new_from_internals_near_raw(log, &n1, &n2))?;
            if !exp.ref_valid() {
                return Err("reference object invalid (machinery)".into());
            }
            let same = |got: &$norm, route: &str| -> Result<(), String> {
                if !got.valid() || !got.ref_valid() {
                    return Err(format!("{}: result fails the validity check", route));
                }
                if got != &exp || !got.full_eq(&exp) {
                    return Err(format!("{}: got {} expected {}", route, got, exp));
                }
                if got.log() != log || got.bh1() != &n1[..] || got.bh2() != &n2[..] {
                    return Err(format!("{}: content differs from run collapsing", route));
                }
                Ok(())
            };
            // route 1: normalize()
            same(&guarded(|| raw.normalize())?, "normalize()")?;
            // route 2: normalize_in_place() on the raw type (stays raw-typed)
            let mut r2 = raw;
            guarded(|| r2.normalize_in_place())?;
            let exp_raw: $raw = <$raw>::new_from_internals_near_raw(log, &n1, &n2);
            if !r2.valid() || !r2.ref_valid() || r2 != exp_raw || !r2.full_eq(&exp_raw) {
                return Err(format!("normalize_in_place(): got {} expected {}", r2, exp_raw));
            }
            // route 3: clone_normalized()
            let r3 = guarded(|| raw.clone_normalized())?;
            if !r3.valid() || r3 != exp_raw || !r3.full_eq(&exp_raw) {
                return Err(format!("clone_normalized(): got {} expected {}", r3, exp_raw));
            }
            // route 4: From / Into
            same(&guarded(|| <$norm>::from(raw))?, "From<raw>")?;
            let via_into: $norm = guarded(|| raw.into())?;
            same(&via_into, "Into")?;
            // route 5: from_raw_form
            same(&guarded(|| <$norm>::from_raw_form(&raw))?, "from_raw_form")?;
            // route 6: parsing the raw text directly into the normalising type
            let text = rt::format(log, bh1, bh2);
            if !crate::c04::STRICT {
                let parsed = guarded(|| text.parse::<$norm>())?.map_err(|e| format!("parse::<norm>({}): {:?}", text, e))?;
                same(&parsed, "str::parse::<normalising type>")?;
            }
            // route 6b (long types): when the run-collapsed block hash 2 fits the short form, parsing the raw
            // text directly into the SHORT normalizing type must give the narrowed normalization
            if <$raw>::IS_LONG_FORM && n2.len() <= 32 && !crate::c04::STRICT {
                let short = guarded(|| text.parse::<FuzzyHash>())?
                    .map_err(|e| format!("parse::<FuzzyHash>({}) fails ({:?}) although the run-collapsed hash fits the short form", text, e))?;
                if short.block_hash_1() != &n1[..] || short.block_hash_2() != &n2[..] || short.log_block_size() != log || !short.is_valid() {
                    return Err(format!("parse::<FuzzyHash>({}) gives {}", text, short));
                }
            }
            // route 7 / 8: normalized part of a dual hash (from object, from text)
            let d = guarded(|| <$dual>::from_raw_form(&raw))?;
            same(d.as_normalized(), "dual.from_raw_form().as_normalized()")?;
            same(&d.to_normalized(), "dual.to_normalized()")?;
            let dp = guarded(|| text.parse::<$dual>())?.map_err(|e| format!("parse::<dual>({}): {:?}", text, e))?;
            same(dp.as_normalized(), "dual parsed from text .as_normalized()")?;
            // route 9: a previously used dual object re-initialised from the raw hash (three kinds of dirt)
            for dirt in 0..3 {
                let dr: $raw = match dirt {
                    0 => <$raw>::new_from_internals_near_raw(30, &[63; 64], &[63; <$raw>::MAX_BLOCK_HASH_SIZE_2]),
                    1 => {
                        let mut a = vec![];
                        for k in 0..8u8 {
                            a.extend(vec![k + 1; 8]);
                        }
                        let mut b = vec![];
                        for k in 0..(<$raw>::MAX_BLOCK_HASH_SIZE_2 / 8) as u8 {
                            b.extend(vec![k + 40; 8]);
                        }
                        <$raw>::new_from_internals_near_raw(7, &a, &b)
                    }
                    _ => <$raw>::new_from_internals_near_raw(9, &crate::corpus::ramp(64, 5), &crate::corpus::ramp(<$raw>::MAX_BLOCK_HASH_SIZE_2, 9)),
                };
                let mut dd = guarded(|| <$dual>::from_raw_form(&dr))?;
                guarded(|| dd.init_from_raw_form(&raw))?;
                same(dd.as_normalized(), "re-used dual init_from_raw_form().as_normalized()")?;
                if dd != d || !dd.is_valid() {
                    return Err(format!("re-used dual (dirt {}) differs from a fresh one: {:?} vs {:?}", dirt, dd, d));
                }
            }
            // idempotence
            let twice = guarded(|| exp.normalize())?;
            same(&twice, "normalize twice")?;
            let mut e2 = exp;
            guarded(|| e2.normalize_in_place())?;
            same(&e2, "normalize_in_place on normalized")?;
            same(&guarded(|| exp.clone_normalized())?, "clone_normalized on normalized")?;
            // is_normalized
            if guarded(|| raw.is_normalized())? != !changed {
                return Err(format!("raw.is_normalized() = {} but normalization {} it", !changed == false, if changed { "changes" } else { "keeps" }));
            }
            if !guarded(|| exp.is_normalized())? || !guarded(|| r2.is_normalized())? {
                return Err("is_normalized() false on a normalized hash".into());
            }
            if d.is_normalized() != !changed {
                return Err("dual.is_normalized() disagrees with the raw hash".into());
            }
            Ok(changed)
            })
        }
    };
}
routes!(routes_short, RawFuzzyHash, FuzzyHash, DualFuzzyHash);
routes!(routes_long, LongRawFuzzyHash, LongFuzzyHash, LongDualFuzzyHash);

pub fn replay(c: &Value) -> Result<(), String> {
    let log = c["log"].as_u64().ok_or("log")? as u8;
    let bh1 = unhex(c["bh1"].as_str().ok_or("bh1")?);
    let bh2 = unhex(c["bh2"].as_str().ok_or("bh2")?);
    if c["long"].as_bool() == Some(true) {
        routes_long(log, &bh1, &bh2).map(|_| ())
    } else {
        routes_short(log, &bh1, &bh2).map(|_| ())
    }
}

pub fn run(ctx: &Ctx) -> Report {
    let mut rep = Report::new("model_checking");
    let thorough = ctx.tier == Tier::Thorough;
    for long in [false, true] {
        let cap2 = if long { 64 } else { 32 };
        let corp = corpus::hash_corpus(cap2, thorough);
        let shards = 128;
        let per = (corp.len() + shards - 1) / shards;
        let acc = par_shards(shards, |s, acc| {
            for i in (s * per)..((s + 1) * per).min(corp.len()) {
                let (log, a, b) = &corp[i];
                acc.evaluations += 1;
                acc.nontrivial += 1;
                let r = if long { routes_long(*log, a, b) } else { routes_short(*log, a, b) };
                match r {
                    Ok(changed) => acc.bump(if changed { "normalization-changes-it" } else { "already-normalized" }),
                    Err(e) => acc.violation(
                        format!("{} raw={}", if long { "long" } else { "short" }, rt::format(*log, a, b)),
                        e,
                        json!({"long": long, "log": log, "bh1": hex(a), "bh2": hex(b), "raw_text": rt::format(*log, a, b)}),
                    ),
                }
                if i == corp.len() / 2 {
                    acc.sample(json!({"long": long, "raw_text": rt::format(*log, a, b)}));
                }
            }
        });
        acc.into_report(&mut rep, if long { "routes_long_types" } else { "routes_short_types" });
    }
    rep.set("exhaustive", true);
    rep.set(
        "rule",
        "every raw hash of the corpus HASH (runs of every length 1..64 at every position, adjacent runs of different symbols, runs touching both ends, capacity lengths, all strings <=5 over {A,B,/}) is normalised through every route: normalize(), normalize_in_place(), clone_normalized(), From/Into, from_raw_form, str::parse into the normalising type (for long raw hashes also into the short normalising type whenever the run-collapsed block hash 2 fits it), the normalised part of a dual hash built from the object, parsed from the text and of a previously used dual object re-initialised with init_from_raw_form (three kinds of dirt); each result must be valid and full_eq the object built from the reference run collapsing; idempotence; is_normalized <=> unchanged.  Cases are distinct raw hashes; all non-trivial.",
    );
    rep
}
