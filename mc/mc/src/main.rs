//! `mc` — bounded-exhaustive / explicit-state checks of the ffuzzy properties.
//!
//!   mc <ID> [--tier quick|thorough] [--seed N] [--verif-dir DIR] [--evidence FILE]
//!   mc replay <file>
//!   mc selftest
//!
//! Exit codes: 0 property held on everything explored (known findings are
//! printed and do not fail); 1 violation (`VIOLATION property=<id> replay=<path>`);
//! >= 2 machinery failure (never a verdict).

#![allow(clippy::all)]
#![allow(deprecated)]

mod common;
mod corpus;
mod explore;
mod gen_util;
mod hashobj;
mod selftest;

mod c01;
mod c02;
mod c03;
mod c04;
mod c05;
mod c06;
mod c07;
mod c08;
mod c09;
mod c10;
mod c11;
mod c12;
mod c13;
mod c15;
mod c16;
mod c17;
mod c18;
mod c19;
mod c20;

use common::*;
use serde_json::{json, Value};
use std::path::PathBuf;
use std::time::Instant;

type CheckFn = fn(&Ctx) -> Report;
type ReplayFn = fn(&Value) -> Result<(), String>;

fn registry(id: &str) -> Option<(CheckFn, ReplayFn)> {
    Some(match id {
        "C01" => (c01::run, c01::replay),
        "C02" => (c02::run, c02::replay),
        "C03" => (c03::run, c03::replay),
        "C04" => (c04::run, c04::replay),
        "C05" => (c05::run, c05::replay),
        "C06" => (c06::run, c06::replay),
        "C07" => (c07::run, c07::replay),
        "C08" => (c08::run, c08::replay),
        "C09" => (c09::run, c09::replay),
        "C10" => (c10::run, c10::replay),
        "C11" => (c11::run, c11::replay),
        "C12" => (c12::run, c12::replay),
        "C13" => (c13::run, c13::replay),
        "C15" => (c15::run, c15::replay),
        "C16" => (c16::run, c16::replay),
        "C17" => (c17::run, c17::replay),
        "C18" => (c18::run, c18::replay),
        "C19" => (c19::run, c19::replay),
        "C20" => (c20::run, c20::replay),
        _ => return None,
    })
}

fn profile_name() -> &'static str {
    if cfg!(debug_assertions) {
        "relda"
    } else {
        "release"
    }
}

fn die(code: i32, msg: &str) -> ! {
    eprintln!("mc: {}", msg);
    std::process::exit(code)
}

fn main() {
    let args: Vec<String> = std::env::args().skip(1).collect();
    if args.is_empty() {
        die(2, "usage: mc <ID> [--tier quick|thorough] | mc replay <file> | mc selftest");
    }
    if std::env::var_os("MC_LOUD").is_none() {
        quiet_panics();
    }
    if let Err(e) = selftest::run() {
        die(3, &format!("reference-model self-test failed (machinery error, not a verdict): {}", e));
    }
    if args[0] == "selftest" {
        println!("selftest ok");
        return;
    }
    if args[0] == "replay" {
        let path = args.get(1).unwrap_or_else(|| die(2, "replay needs a file"));
        let text = std::fs::read_to_string(path).unwrap_or_else(|e| die(2, &format!("{}: {}", path, e)));
        let v: Value = serde_json::from_str(&text).unwrap_or_else(|e| die(2, &format!("{}: {}", path, e)));
        let id = v["property"].as_str().unwrap_or("").to_string();
        let (_, replay) = registry(&id).unwrap_or_else(|| die(2, "unknown property in replay file"));
        match common::guard_case(|| replay(&v["case"])) {
            Ok(()) => {
                println!("replay: property={} case holds on the current tree", id);
                std::process::exit(0);
            }
            Err(e) => {
                println!("replay: property={} case FAILS on the current tree: {}", id, e);
                println!("VIOLATION property={} replay={}", id, path);
                std::process::exit(1);
            }
        }
    }
    let id = args[0].clone();
    let mut tier = match std::env::var("VERIF_TIER").ok().as_deref() {
        Some("thorough") => Tier::Thorough,
        _ => Tier::Quick,
    };
    let mut seed: u64 = std::env::var("VERIF_SEED").ok().and_then(|s| s.parse().ok()).unwrap_or(0);
    let mut verif_dir = PathBuf::from("/verif");
    let mut evidence: Option<PathBuf> = None;
    let mut i = 1;
    while i < args.len() {
        match args[i].as_str() {
            "--tier" => {
                tier = match args.get(i + 1).map(|s| s.as_str()) {
                    Some("quick") => Tier::Quick,
                    Some("thorough") => Tier::Thorough,
                    _ => die(2, "bad --tier"),
                };
                i += 1;
            }
            "--seed" => {
                seed = args.get(i + 1).and_then(|s| s.parse().ok()).unwrap_or_else(|| die(2, "bad --seed"));
                i += 1;
            }
            "--verif-dir" => {
                verif_dir = PathBuf::from(args.get(i + 1).unwrap_or_else(|| die(2, "bad --verif-dir")));
                i += 1;
            }
            "--evidence" => {
                evidence = Some(PathBuf::from(args.get(i + 1).unwrap_or_else(|| die(2, "bad --evidence"))));
                i += 1;
            }
            x => die(2, &format!("unknown argument {}", x)),
        }
        i += 1;
    }
    let (check, replay) = registry(&id).unwrap_or_else(|| die(2, &format!("unknown property {}", id)));
    let wall_cap_s: f64 = std::env::var("MC_WALL_CAP_S")
        .ok()
        .and_then(|s| s.parse().ok())
        .unwrap_or(tier.pick(45.0, 1500.0));
    let ctx = Ctx {
        id: id.clone(),
        tier,
        seed,
        start: Instant::now(),
        verif_dir: verif_dir.clone(),
        profile: profile_name(),
        wall_cap_s,
    };
    // watchdog: resident-set and wall-clock caps inside the engine (a capped run is a machinery exit, never a verdict)
    {
        let rss_cap_kb: u64 = std::env::var("MC_RSS_CAP_GB").ok().and_then(|s| s.parse::<u64>().ok()).unwrap_or(28) * 1024 * 1024;
        let hard_wall_s: f64 = std::env::var("MC_HARD_WALL_S").ok().and_then(|s| s.parse().ok()).unwrap_or(tier.pick(900.0, 7200.0));
        let t0 = Instant::now();
        let idc = id.clone();
        std::thread::spawn(move || loop {
            std::thread::sleep(std::time::Duration::from_millis(250));
            if let Ok(st) = std::fs::read_to_string("/proc/self/statm") {
                let pages: u64 = st.split_whitespace().nth(1).and_then(|x| x.parse().ok()).unwrap_or(0);
                if pages * 4 > rss_cap_kb {
                    eprintln!("mc {}: resident set above the cap ({} GiB) - stopping (machinery limit, not a verdict)", idc, rss_cap_kb >> 20);
                    std::process::exit(7);
                }
            }
            if t0.elapsed().as_secs_f64() > hard_wall_s {
                eprintln!("mc {}: hard wall-clock cap of {} s hit - stopping (machinery limit, not a verdict)", idc, hard_wall_s);
                std::process::exit(8);
            }
        });
    }
    let rep = check(&ctx);
    let wall = ctx.elapsed();

    // classify violations: known findings vs. new ones
    let known = load_known(&verif_dir.join("known-findings.txt"));
    let mut new_violations = vec![];
    let mut known_hits: Vec<String> = vec![];
    for v in &rep.violations {
        if let Some(k) = known.iter().find(|k| k.property == id && v.signature.starts_with(&k.signature)) {
            let line = format!("KNOWN-FINDING: property={} {}", id, k.signature);
            if !known_hits.contains(&line) {
                known_hits.push(line);
            }
        } else {
            new_violations.push(v.clone());
        }
    }
    // every reported violation must replay identically twice, else machinery error
    let mut replay_files = vec![];
    for (n, v) in new_violations.iter().enumerate() {
        // a replay that panics (a library call that is not individually guarded) reproduces the violation as well
        let r1 = common::guard_case(|| replay(&v.case));
        let r2 = common::guard_case(|| replay(&v.case));
        if r1.is_ok() || r2.is_ok() || r1 != r2 {
            die(
                4,
                &format!(
                    "non-deterministic or non-replayable violation (machinery error): {} / first={:?} second={:?} / case={}",
                    v.what, r1, r2, v.case
                ),
            );
        }
        let label = std::env::var("MC_LABEL").unwrap_or_else(|_| ctx.profile.to_string());
        let path = verif_dir.join("replays").join(format!("{}-{}-{}.json", id, label, n));
        let doc = json!({
            "property": id, "profile": ctx.profile, "label": label, "tier": tier.name(),
            "signature": v.signature, "what": v.what, "case": v.case,
            "replay_cmd": format!("./check --replay {}", path.display()),
        });
        write_json(&path, &doc).unwrap_or_else(|e| die(2, &format!("cannot write replay: {}", e)));
        replay_files.push(path);
    }
    let unrecorded_new = rep.violation_count as usize > rep.violations.len();

    // evidence
    let mut coverage = rep.coverage.clone();
    {
        // samples must always show actual cases: violating cases are cases too
        let empty = coverage.get("samples").and_then(|v| v.as_array()).map(|a| a.is_empty()).unwrap_or(true);
        if empty && !rep.violations.is_empty() {
            let v: Vec<Value> = rep.violations.iter().take(3).map(|v| json!({"violating_case": v.case})).collect();
            coverage.insert("samples".into(), Value::Array(v));
        }
    }
    coverage.entry("profile".to_string()).or_insert(json!(ctx.profile));
    coverage.insert("known_findings_hit".into(), json!(known_hits));
    coverage.insert("wall_cap_s".into(), json!(wall_cap_s));
    let ev = json!({
        "property_id": id,
        "tier": tier.name(),
        "seed": seed,
        "level": rep.level,
        "coverage": Value::Object(coverage),
        "assumptions": rep.assumptions,
        "wall_s": (wall * 1000.0).round() / 1000.0,
        "violations": rep.violation_count,
    });
    let ev_path = evidence.unwrap_or_else(|| verif_dir.join("evidence").join(format!("{}.json", id)));
    write_json(&ev_path, &ev).unwrap_or_else(|e| die(2, &format!("cannot write evidence: {}", e)));

    for l in &known_hits {
        println!("{}", l);
    }
    println!(
        "mc {} tier={} profile={} evaluations={} states={} transitions={} violations={} wall={:.1}s",
        id,
        tier.name(),
        ctx.profile,
        ev["coverage"]["evaluations"],
        ev["coverage"]["states"],
        ev["coverage"]["transitions"],
        rep.violation_count,
        wall
    );
    if !new_violations.is_empty() {
        for (v, p) in new_violations.iter().zip(replay_files.iter()) {
            println!("  {} :: {}", v.signature, v.what);
            println!("VIOLATION property={} replay={}", id, p.display());
        }
        std::process::exit(1);
    }
    if unrecorded_new && known_hits.is_empty() {
        die(4, "violations counted but none recorded (machinery error)");
    }
}
