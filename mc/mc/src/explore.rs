//! Explicit-state exploration: stateright as the primary explorer and a small
//! layer-synchronous BFS (with parent pointers) as cross-check, shortest
//! counterexample extractor and source of recorded paths that are re-executed
//! from scratch on fresh objects.

use stateright::{Checker, Model};
use std::collections::HashMap;
use std::hash::Hash;

pub struct SrResult<A> {
    pub unique: u64,
    pub generated: u64,
    pub max_depth: u64,
    pub discoveries: Vec<(String, Vec<A>)>,
}

pub fn run_stateright<M>(model: M, threads: usize) -> SrResult<M::Action>
where
    M: Model + Send + Sync + 'static,
    M::State: Hash + Clone + Send + Sync + std::fmt::Debug + PartialEq + 'static,
    M::Action: Clone + Send + Sync + std::fmt::Debug + PartialEq + 'static,
{
    let c = model.checker().threads(threads).spawn_bfs().join();
    let mut discoveries = vec![];
    for (name, path) in c.discoveries() {
        discoveries.push((name.to_string(), path.into_actions()));
    }
    discoveries.sort_by(|a, b| a.0.cmp(&b.0));
    SrResult {
        unique: c.unique_state_count() as u64,
        generated: c.state_count() as u64,
        max_depth: c.max_depth() as u64,
        discoveries,
    }
}

pub struct BfsResult<A> {
    pub states: u64,
    pub transitions: u64,
    pub depth: u64,
    pub capped: bool,
    /// (property name, shortest action path)
    pub violation: Option<(String, Vec<A>)>,
    /// recorded paths (to the last state of every layer plus evenly spaced ones)
    pub sample_paths: Vec<Vec<A>>,
}

/// Deterministic single-threaded BFS over a stateright `Model`, evaluating the
/// `always` properties in every state.  `max_states` caps the search (reported).
pub fn bfs<M>(model: &M, max_states: usize, max_samples: usize) -> BfsResult<M::Action>
where
    M: Model,
    M::State: Hash + Eq + Clone,
    M::Action: Clone,
{
    let props = model.properties();
    let mut index: HashMap<M::State, usize> = HashMap::new();
    let mut parents: Vec<Option<(usize, M::Action)>> = vec![];
    let mut states: Vec<M::State> = vec![];
    let mut frontier: Vec<usize> = vec![];
    let path_to = |parents: &Vec<Option<(usize, M::Action)>>, mut i: usize| -> Vec<M::Action> {
        let mut p = vec![];
        while let Some((pi, a)) = &parents[i] {
            p.push(a.clone());
            i = *pi;
        }
        p.reverse();
        p
    };
    let mut transitions = 0u64;
    let mut violation = None;
    let check = |s: &M::State| -> Option<String> {
        for p in &props {
            if let stateright::Expectation::Always = p.expectation {
                if !(p.condition)(model, s) {
                    return Some(p.name.to_string());
                }
            }
        }
        None
    };
    for s in model.init_states() {
        if !index.contains_key(&s) {
            index.insert(s.clone(), states.len());
            frontier.push(states.len());
            parents.push(None);
            states.push(s);
        }
    }
    for &i in &frontier {
        if let Some(name) = check(&states[i]) {
            violation = Some((name, vec![]));
        }
    }
    let mut depth = 0u64;
    let mut capped = false;
    let mut layer_last: Vec<usize> = vec![];
    let mut actions = vec![];
    'outer: while !frontier.is_empty() && violation.is_none() {
        let mut next = vec![];
        for &i in &frontier {
            actions.clear();
            model.actions(&states[i], &mut actions);
            let cur = states[i].clone();
            for a in actions.drain(..) {
                if let Some(ns) = model.next_state(&cur, a.clone()) {
                    transitions += 1;
                    if !index.contains_key(&ns) {
                        let ni = states.len();
                        index.insert(ns.clone(), ni);
                        parents.push(Some((i, a)));
                        let bad = check(&ns);
                        states.push(ns);
                        next.push(ni);
                        if let Some(name) = bad {
                            violation = Some((name, path_to(&parents, ni)));
                            break 'outer;
                        }
                        if states.len() >= max_states {
                            capped = true;
                            break 'outer;
                        }
                    }
                }
            }
        }
        if let Some(&l) = next.last() {
            layer_last.push(l);
        }
        if !next.is_empty() {
            depth += 1;
        }
        frontier = next;
    }
    let mut sample_paths = vec![];
    for &l in layer_last.iter().rev().take(max_samples / 2) {
        sample_paths.push(path_to(&parents, l));
    }
    let n = states.len();
    let want = max_samples.saturating_sub(sample_paths.len());
    if want > 0 && n > 1 {
        let step = (n / want).max(1);
        let mut i = n - 1;
        loop {
            sample_paths.push(path_to(&parents, i));
            if sample_paths.len() >= max_samples || i < step {
                break;
            }
            i -= step;
        }
    }
    BfsResult { states: n as u64, transitions, depth, capped, violation, sample_paths }
}
