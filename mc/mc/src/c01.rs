//! C01 — generated hashes are byte-identical to ssdeep/libfuzzy 2.14.1.
//!
//! E-LOCKSTEP: the real `Generator` and the declarative CTPH reference advance
//! together over exhaustively enumerated word / byte sequences and are compared
//! after every step (so every prefix is a checked case).  Every completed
//! sequence is additionally fed to a fresh generator as ONE slice.

use crate::common::*;
use crate::corpus;
use crate::gen_util::*;
use refmodel::ctph::Ctph;
use serde_json::{json, Value};
use ssdeep::Generator;

/// A replayable case: start from `hook(zp)`, feed `chunks` (word repeated
/// `count` times through `form`), comparing after every word.
#[derive(Clone, Debug)]
pub struct Chunk {
    pub word: Vec<u8>,
    pub count: usize,
    pub form: Form,
}

pub fn form_name(f: Form) -> &'static str {
    match f {
        Form::Slice => "Slice",
        Form::Iter => "Iter",
        Form::Byte => "Byte",
        Form::AddSlice => "AddSlice",
        Form::AddByte => "AddByte",
        Form::IterInexact => "IterInexact",
        Form::AddArray => "AddArray",
        Form::IterNotFused => "IterNotFused",
    }
}
pub fn form_from(s: &str) -> Option<Form> {
    FORMS.iter().copied().find(|f| form_name(*f) == s)
}

pub fn case_json(zp: u64, chunks: &[Chunk], hint: Option<u64>) -> Value {
    json!({
        "zero_prefix": zp,
        "hint": hint,
        "chunks": chunks.iter().map(|c| json!({"word": hex(&c.word), "count": c.count, "form": form_name(c.form)})).collect::<Vec<_>>(),
    })
}

/// A case found by an exploration that continues on a clone of the generator at every branching point (chunk start).
pub fn case_json_cloning(zp: u64, chunks: &[Chunk], hint: Option<u64>) -> Value {
    let mut c = case_json(zp, chunks, hint);
    c["clone_each_step"] = json!(true);
    c
}

pub fn start_generator(zp: u64) -> Generator {
    if zp == 0 {
        Generator::new()
    } else {
        Generator::verif_new_with_prefix_zeroes(zp)
    }
}

/// A *reused* generator: it first digested an input that populated every one
/// of the 31 block hash contexts with 64 pieces (and activated the last-piece
/// hash), was then `reset()`, and is brought to the zero prefix in place.
pub fn start_generator_dirty(zp: u64) -> Generator {
    start_generator_dirty_kind(zp, 1)
}

/// kind 1: all contexts populated by an earlier input; kind 2: the earlier input was digested under a
/// small declared size (so the fork limit was lowered) and finalized
pub fn start_generator_dirty_kind(zp: u64, kind: u8) -> Generator {
    let mut g = Generator::new();
    if kind == 2 {
        let first = corpus::repeat(&corpus::W[3], 20);
        g.set_fixed_input_size(first.len() as u64).unwrap();
        g.update(&first);
        let _ = g.finalize();
    } else {
        g.update(&corpus::repeat(&corpus::W[30], 70));
        g.update(&[1, 2, 3]);
    }
    g.reset();
    if zp != 0 {
        g.verif_feed_zero_bytes(zp);
    }
    g
}

/// From-scratch execution of one case with a plain loop (used by replay).
pub fn run_case(c: &Value) -> Result<(), String> {
    // a panic escaping from the library through any call below is a violation of this case, not a crash
    guard_case(|| run_case_unguarded(c))
}

fn run_case_unguarded(c: &Value) -> Result<(), String> {
    let zp = c["zero_prefix"].as_u64().ok_or("zero_prefix")?;
    let hint = c["hint"].as_u64();
    let mut g = match (c["dirty_start"].as_bool(), c["dirty_start"].as_u64()) {
        (Some(true), _) => start_generator_dirty(zp),
        (_, Some(k)) if k > 0 => start_generator_dirty_kind(zp, k as u8),
        _ => start_generator(zp),
    };
    let mut r = Ctph::new(zp);
    let mut hint = hint;
    // the declaration happens before the chunk with this index (0 = first, the default)
    let declare_before = c["declare_after"].as_u64().unwrap_or(0) as usize;
    let clone_each_step = c["clone_each_step"].as_bool().unwrap_or(false);
    let dirty_case = c["dirty_start"].as_u64().unwrap_or(0) != 0 || c["dirty_start"].as_bool() == Some(true);
    let declare = |g: &mut Generator, hint: &mut Option<u64>| -> Result<(), String> {
        if let Some(h) = *hint {
            let before = format!("{:?}", g);
            match guarded(|| g.set_fixed_input_size(h)).map_err(|p| format!("panic in set_fixed_input_size: {}", p))? {
                Ok(()) => {
                    if h > refmodel::MAX_INPUT_SIZE {
                        return Err(format!("declared size {} above the limit was accepted", h));
                    }
                    // a second, different declaration is refused and must change nothing (see C13)
                    if h > 16 && !dirty_case {
                        let r2 = guarded(|| g.set_fixed_input_size(h / 4096)).map_err(|p| format!("panic: {}", p))?;
                        if r2 != Err(ssdeep::GeneratorError::FixedSizeMismatch) {
                            return Err(format!("second declaration {} after {} returned {:?}", h / 4096, h, r2));
                        }
                    }
                }
                Err(e) => {
                    if h <= refmodel::MAX_INPUT_SIZE || e != ssdeep::GeneratorError::FixedSizeTooLarge {
                        return Err(format!("declared size {} refused with {:?}", h, e));
                    }
                    if format!("{:?}", g) != before {
                        return Err(format!("refused declaration {} changed the generator", h));
                    }
                    *hint = None; // refused: the generator must behave as if nothing was declared
                }
            }
        }
        Ok(())
    };
    if declare_before == 0 {
        declare(&mut g, &mut hint)?;
    }
    let chunks = c["chunks"].as_array().ok_or("chunks")?;
    let total: u64 = zp.saturating_add(
        chunks
            .iter()
            .map(|ch| {
                ch["skip_zeros"].as_u64().unwrap_or(0)
                    + (ch["word"].as_str().unwrap_or("").len() / 2) as u64 * ch["count"].as_u64().unwrap_or(0)
            })
            .sum::<u64>(),
    );
    for (chunk_index, ch) in chunks.iter().enumerate() {
        if chunk_index == declare_before && declare_before != 0 {
            declare(&mut g, &mut hint)?;
        }
        if clone_each_step {
            // the exploration that found this case continues on a clone of the generator after every step
            g = guarded(|| g.clone()).map_err(|p| format!("panic in clone: {}", p))?;
        }
        if let Some(n) = ch["skip_zeros"].as_u64() {
            // in-place zero skip (hook H1); only valid when the last 7 bytes were zero
            if r.roll_value() != 0 {
                return Err("bad case: skip_zeros with a non-zero window".into());
            }
            guarded(|| g.verif_feed_zero_bytes(n)).map_err(|p| format!("panic in hook: {}", p))?;
            r.skip_zeros(n);
            continue;
        }
        let word = unhex(ch["word"].as_str().ok_or("word")?);
        let count = ch["count"].as_u64().ok_or("count")? as usize;
        let form = form_from(ch["form"].as_str().ok_or("form")?).ok_or("form name")?;
        for i in 0..count {
            guarded(|| feed(&mut g, &word, form)).map_err(|p| format!("panic in update: {}", p))?;
            r.feed_all(&word);
            // with a hint, intermediate finalisations legitimately fail; compare at the end only
            if hint.is_none() || r.size() == total || chunk_index < declare_before {
                if let Some(m) = mismatch_hint(&g, &r, hint) {
                    return Err(format!("after {} x{} ({}): {}", hex(&word[..word.len().min(16)]), i + 1, form_name(form), m));
                }
            }
        }
    }
    Ok(())
}

/// Like `mismatch`, but with a declared size equal to the final size the
/// small-input warning is based on the declared size (same value at the end).
pub fn mismatch_hint(g: &Generator, r: &Ctph, _hint: Option<u64>) -> Option<String> {
    mismatch(g, r)
}

pub fn replay(c: &Value) -> Result<(), String> {
    run_case(c)
}

fn sig(section: &str, zp: u64, chunks: &[Chunk], names: &dyn Fn(&[u8]) -> String) -> String {
    let mut s = format!("{} zp={}", section, zp);
    for c in chunks {
        s.push_str(&format!(" {}^{}", names(&c.word), c.count));
    }
    s
}

struct Env {
    alpha: Vec<(String, Vec<u8>)>,
}
impl Env {
    fn name(&self, w: &[u8]) -> String {
        self.alpha.iter().find(|(_, x)| x == w).map(|(n, _)| n.clone()).unwrap_or_else(|| format!("[{}B]", w.len()))
    }
}

/// Feed the concatenation of `chunks` as ONE slice into a fresh generator.
fn one_slice_check(env: &Env, section: &str, zp: u64, chunks: &[Chunk], r: &Ctph, acc: &mut Acc) {
    let mut whole = vec![];
    for c in chunks {
        for _ in 0..c.count {
            whole.extend_from_slice(&c.word);
        }
    }
    let mut g = start_generator(zp);
    acc.evaluations += 1;
    let res = guarded(|| {
        g.update(&whole);
    });
    let bad = match res {
        Err(p) => Some(format!("panic: {}", p)),
        Ok(()) => mismatch(&g, r),
    };
    if let Some(m) = bad {
        let one = vec![Chunk { word: whole, count: 1, form: Form::Slice }];
        acc.violation(
            format!("{} one-slice", sig(section, zp, chunks, &|w| env.name(w))),
            m,
            case_json(zp, &one, None),
        );
    }
    // zero prefix 0: the one-shot buffer function must agree as well
    if zp == 0 {
        let whole = &one_slice_bytes(chunks);
        acc.evaluations += 1;
        let exp = expected(r);
        match guarded(|| ssdeep::hash_buf(whole)) {
            Err(p) => acc.violation(
                format!("{} hash_buf", sig(section, zp, chunks, &|w| env.name(w))),
                format!("panic: {}", p),
                json!({"hash_buf": hex(whole)}),
            ),
            Ok(res) => {
                let got = res.map(|h| h.to_string()).unwrap_or_else(|e| format!("Err({:?})", e));
                if got != exp.fin {
                    acc.violation(
                        format!("{} hash_buf", sig(section, zp, chunks, &|w| env.name(w))),
                        format!("hash_buf gives {} expected {}", got, exp.fin),
                        json!({"hash_buf": hex(whole)}),
                    );
                }
            }
        }
    }
}

fn one_slice_bytes(chunks: &[Chunk]) -> Vec<u8> {
    let mut whole = vec![];
    for c in chunks {
        for _ in 0..c.count {
            whole.extend_from_slice(&c.word);
        }
    }
    whole
}

fn note_state(g: &Generator, r: &Ctph, acc: &mut Acc) {
    if let Ok(d) = r.digest() {
        acc.max("max_block_index_in_result", d.log as u64);
        acc.bump(&format!("log={:02}", d.log));
        if d.bh2_long.len() > 32 {
            acc.count("results_with_bh2_longer_than_32", 1);
        }
        if d.bh1.len() == 64 {
            acc.count("results_with_full_bh1", 1);
        }
    } else {
        acc.bump("too_large");
    }
    if let Some(s) = debug_field(g, "bhidx_start") {
        acc.max("max_bhidx_start(eliminations)", s);
    }
    if let Some(e) = debug_field(g, "bhidx_end") {
        acc.max("max_bhidx_end(forks)", e);
    }
    if debug_flag(g, "is_last") == Some(true) {
        acc.count("states_with_last_piece_hash_active", 1);
    }
}

/// Lock-step step: feed `word` once through `form` into both; compare.
#[inline]
fn step(
    g: &mut Generator,
    r: &mut Ctph,
    word: &[u8],
    form: Form,
    acc: &mut Acc,
) -> Option<String> {
    let res = guarded(|| feed(g, word, form));
    r.feed_all(word);
    acc.evaluations += 1;
    acc.nontrivial += 1;
    acc.count("byte_steps", word.len() as u64);
    match res {
        Err(p) => Some(format!("panic in update: {}", p)),
        Ok(()) => mismatch(g, r),
    }
}

pub fn run(ctx: &Ctx) -> Report {
    let mut rep = Report::new("model_checking");
    let env = Env { alpha: corpus::gen_alphabet() };
    let alpha = &env.alpha;
    let na = alpha.len();
    let thorough = ctx.tier == Tier::Thorough;

    // hook validation (machinery; exit 6 on failure): hook(0) is new(), and the inductive step
    if let Err(e) = validate_hook(ctx) {
        eprintln!("mc: hook validation failed (machinery error, not a verdict): {}", e);
        std::process::exit(6);
    }

    // ------------------------------------------------------------ S1: all sequences of length <= 3
    let prefixes_s1: Vec<u64> = if thorough {
        vec![0, 1, 6, 7, 13, 15, 16, 111, 112, 5000, (192u64 << 5) - 10, (192u64 << 30) - 14]
    } else {
        vec![0, 1, 7, 16, 113, (192u64 << 30) - 14]
    };
    // every start also as a *reused* generator for two of the prefixes (all 31 contexts dirty, then reset())
    let starts_s1: Vec<(u64, u8)> = prefixes_s1.iter().map(|&z| (z, 0u8)).chain([(0u64, 1u8), (113u64, 1), (0, 2), (5000, 2)]).collect();
    let acc = par_shards(starts_s1.len() * na, |i, acc| {
        let (zp, dirty) = starts_s1[i / na];
        let a0 = i % na;
        let mut path: Vec<Chunk> = vec![];
        fn rec(
            env: &Env,
            zp: u64,
            dirty: u8,
            g: &Generator,
            r: &Ctph,
            depth: usize,
            sym: usize,
            path: &mut Vec<Chunk>,
            acc: &mut Acc,
        ) {
            let word = &env.alpha[sym].1;
            let form = FORMS[(depth + sym) % FORMS.len()];
            let mut g2 = g.clone();
            let mut r2 = r.clone();
            path.push(Chunk { word: word.clone(), count: 1, form });
            if let Some(m) = step(&mut g2, &mut r2, word, form, acc) {
                let mut c = case_json(zp, path, None);
                c["dirty_start"] = json!(dirty);
                c["clone_each_step"] = json!(true);
                acc.violation(format!("{}{}", sig("S1", zp, path, &|w| env.name(w)), if dirty > 0 { " reused-generator" } else { "" }), m, c);
            } else {
                if dirty == 0 {
                    one_slice_check(env, "S1", zp, path, &r2, acc);
                }
                if depth + 1 < 3 {
                    for s in 0..env.alpha.len() {
                        rec(env, zp, dirty, &g2, &r2, depth + 1, s, path, acc);
                    }
                } else if sym == 0 {
                    acc.sample(case_json(zp, path, None));
                }
            }
            path.pop();
        }
        let g = if dirty > 0 { start_generator_dirty_kind(zp, dirty) } else { start_generator(zp) };
        let r = Ctph::new(zp);
        rec(&env, zp, dirty, &g, &r, 0, a0, &mut path, acc);
    });
    acc.into_report(&mut rep, "S1_all_sequences_len_le_3");

    // ------------------------------------------------------------ S1h: total size declared first, then all pairs x last form
    // (the declaration must not change the hash, whichever update form delivers the last byte)
    {
        let starts: Vec<u64> = vec![0, 113, 5000, (192u64 << 5) - 10, (192u64 << 12) - 9, (192u64 << 30) - 14];
        let acc = par_shards(starts.len() * na, |i, acc| {
            let zp = starts[i / na];
            let a = &env.alpha[i % na];
            for b in env.alpha.iter() {
                for (k, &f2) in FORMS.iter().enumerate() {
                    let f1 = FORMS[(k + i) % FORMS.len()];
                    let chunks = vec![Chunk { word: a.1.clone(), count: 1, form: f1 }, Chunk { word: b.1.clone(), count: 1, form: f2 }];
                    let total = zp + (a.1.len() + b.1.len()) as u64;
                    // declared before anything is fed, and declared between the two chunks
                    for late in [0u64, 1] {
                        let mut c = case_json(zp, &chunks, Some(total));
                        c["declare_after"] = json!(late);
                        acc.evaluations += 1;
                        acc.nontrivial += 1;
                        if let Err(m) = run_case(&c) {
                            acc.violation(format!("{} declared={} (before chunk {}) forms={}/{}", sig("S1h", zp, &chunks, &|w| env.name(w)), total, late, form_name(f1), form_name(f2)), m, c);
                        }
                    }
                }
            }
            if i == 0 {
                acc.sample(case_json(zp, &[Chunk { word: a.1.clone(), count: 1, form: Form::Byte }], Some(zp + a.1.len() as u64)));
            }
        });
        acc.into_report(&mut rep, "S1h_total_declared_first_all_pairs_x_every_last_form");
    }

    // ------------------------------------------------------------ S1L: declarations around piece-rich data
    // [W_k^m] [Z] [skip N zeros] [b]: the total is declared before chunk 0, 1, 2 or 3 (a refused smaller second
    // declaration follows each accepted one); the data before the declaration has pieces at level k only, the
    // zeros push the total over several block-size borders
    {
        let mut cases: Vec<Value> = vec![];
        for k in [0usize, 1, 2, 5] {
            for m in [31u64, 32, 33, 40, 64, 65, 70] {
                for n in [0u64, 300, 1000, 5000, 100_000, 3_000_000] {
                    for (bi, b) in [corpus::F.to_vec(), corpus::W[k].to_vec(), corpus::W[(k + 1) % 31].to_vec(), vec![1u8]].iter().enumerate() {
                        for late in 0..4u64 {
                            let form = FORMS[(k + m as usize + bi + late as usize) % FORMS.len()];
                            let total = 7 * m + 7 + n + b.len() as u64;
                            let mut chunks = vec![
                                json!({"word": hex(&corpus::W[k]), "count": m, "form": form_name(form)}),
                                json!({"word": hex(&corpus::Z), "count": 1, "form": "Slice"}),
                            ];
                            if n > 0 {
                                chunks.push(json!({"skip_zeros": n}));
                            }
                            chunks.push(json!({"word": hex(b), "count": 1, "form": form_name(FORMS[(bi + late as usize) % FORMS.len()])}));
                            if late as usize >= chunks.len() {
                                continue;
                            }
                            cases.push(json!({"zero_prefix": 0, "hint": total, "declare_after": late, "chunks": chunks}));
                        }
                    }
                }
            }
        }
        let acc = par_shards(cases.len(), |i, acc| {
            acc.evaluations += 1;
            acc.nontrivial += 1;
            if let Err(m) = run_case(&cases[i]) {
                acc.violation(format!("S1L case {}", i), m, cases[i].clone());
            }
            if i == 7 {
                acc.sample(cases[i].clone());
            }
        });
        acc.into_report(&mut rep, "S1L_declarations_around_piece_rich_data");
    }

    // ------------------------------------------------------------ S2: run-structured sequences
    let counts: [usize; 9] = [1, 2, 31, 32, 33, 63, 64, 65, 66];
    let counts3: Vec<usize> = if thorough { counts.to_vec() } else { vec![1, 32, 65] };
    let mut prefixes_s2: Vec<u64> = vec![0];
    for &(n, back) in &[(5u32, 300u64), (12, 460), (29, 455), (30, 448), (30, 447), (30, 449)] {
        prefixes_s2.push((192u64 << n) - back);
    }
    if thorough {
        for n in [0u32, 1, 2, 3, 8, 16, 20, 24, 28] {
            prefixes_s2.push((192u64 << n).saturating_sub(230).max(1));
            prefixes_s2.push((192u64 << n) + 3);
        }
        prefixes_s2.extend([3, 11, 100]);
    }
    let three_segments = |zp: u64, s1: usize, s2: usize| -> bool {
        // three segments: from new() for every pair in thorough; a strided subset in quick
        if zp != 0 {
            return false;
        }
        thorough || (s1 + 2 * s2) % 7 == 0
    };
    let acc = par_shards(prefixes_s2.len() * na, |i, acc| {
        let zp = prefixes_s2[i / na];
        let s1 = i % na;
        if zp != 0 && !thorough && s1 % 3 != 0 {
            return;
        }
        let w1 = &alpha[s1].1;
        let f1 = FORMS[s1 % FORMS.len()];
        let mut g = start_generator(zp);
        let mut r = Ctph::new(zp);
        let maxc = *counts.last().unwrap();
        for c1 in 1..=maxc {
            let mut path = vec![Chunk { word: w1.clone(), count: c1, form: f1 }];
            if let Some(m) = step(&mut g, &mut r, w1, f1, acc) {
                acc.violation(sig("S2", zp, &path, &|w| env.name(w)), m, case_json_cloning(zp, &path, None));
                return;
            }
            if !counts.contains(&c1) {
                continue;
            }
            one_slice_check(&env, "S2", zp, &path, &r, acc);
            note_state(&g, &r, acc);
            for s2 in 0..na {
                if s2 == s1 {
                    continue;
                }
                let w2 = &alpha[s2].1;
                let f2 = FORMS[(s2 + 1) % FORMS.len()];
                let mut g2 = g.clone();
                let mut r2 = r.clone();
                let mut ok = true;
                for c2 in 1..=maxc {
                    path.truncate(1);
                    path.push(Chunk { word: w2.clone(), count: c2, form: f2 });
                    if let Some(m) = step(&mut g2, &mut r2, w2, f2, acc) {
                        acc.violation(sig("S2", zp, &path, &|w| env.name(w)), m, case_json_cloning(zp, &path, None));
                        ok = false;
                        break;
                    }
                    if !counts.contains(&c2) {
                        continue;
                    }
                    one_slice_check(&env, "S2", zp, &path, &r2, acc);
                    if c2 == 64 {
                        note_state(&g2, &r2, acc);
                    }
                    if three_segments(zp, s1, s2) && counts3.contains(&c1) && counts3.contains(&c2) {
                        for s3 in 0..na {
                            if s3 == s2 {
                                continue;
                            }
                            let w3 = &alpha[s3].1;
                            let f3 = FORMS[(s3 + 2) % FORMS.len()];
                            let mut g3 = g2.clone();
                            let mut r3 = r2.clone();
                            for c3 in 1..=*counts3.last().unwrap() {
                                path.truncate(2);
                                path.push(Chunk { word: w3.clone(), count: c3, form: f3 });
                                if let Some(m) = step(&mut g3, &mut r3, w3, f3, acc) {
                                    acc.violation(
                                        sig("S2", zp, &path, &|w| env.name(w)),
                                        m,
                                        case_json_cloning(zp, &path, None),
                                    );
                                    break;
                                }
                                if counts3.contains(&c3) && (c3 == 1 || c3 >= 64) {
                                    one_slice_check(&env, "S2", zp, &path, &r3, acc);
                                }
                            }
                            path.truncate(2);
                        }
                    }
                }
                if ok && s1 == 3 && s2 == 5 {
                    acc.sample(case_json(zp, &path, None));
                }
            }
        }
    });
    acc.into_report(&mut rep, "S2_run_structured_sequences");

    // ------------------------------------------------------------ S3: byte strings
    // (a) all strings of length <= L over {00, 01, FF}
    let l3 = ctx.tier.pick(9usize, 11);
    let b3 = [0x00u8, 0x01, 0xff];
    let acc = par_shards(27, |i, acc| {
        let first = [b3[i / 9], b3[(i / 3) % 3], b3[i % 3]];
        let mut g = Generator::new();
        let mut r = Ctph::new(0);
        let mut bytes: Vec<u8> = vec![];
        // the three leading bytes (their prefixes are checked by shard 0..)
        for (j, &c) in first.iter().enumerate() {
            bytes.push(c);
            // the leading prefixes are shared between shards: count each once
            let first_owner = match j {
                0 => i % 9 == 0,
                1 => i % 3 == 0,
                _ => true,
            };
            let res = step(&mut g, &mut r, &[c], Form::Byte, acc);
            if !first_owner {
                acc.nontrivial -= 1;
            }
            if let Some(m) = res {
                let p = vec![Chunk { word: bytes.clone(), count: 1, form: Form::Byte }];
                acc.violation(format!("S3a bytes={}", hex(&bytes)), m, case_json_cloning(0, &p, None));
                return;
            }
        }
        fn rec(g: &Generator, r: &Ctph, bytes: &mut Vec<u8>, l3: usize, b3: &[u8; 3], acc: &mut Acc) {
            if bytes.len() >= l3 {
                return;
            }
            for &c in b3 {
                let mut g2 = g.clone();
                let mut r2 = r.clone();
                bytes.push(c);
                let form = FORMS[bytes.len() % FORMS.len()];
                if let Some(m) = step(&mut g2, &mut r2, &[c], form, acc) {
                    let p = vec![Chunk { word: bytes.clone(), count: 1, form: Form::Byte }];
                    acc.violation(format!("S3a bytes={}", hex(bytes)), m, case_json_cloning(0, &p, None));
                } else {
                    rec(&g2, &r2, bytes, l3, b3, acc);
                }
                bytes.pop();
            }
        }
        rec(&g, &r, &mut bytes, l3, &b3, acc);
    });
    acc.into_report(&mut rep, "S3a_all_byte_strings_over_00_01_ff");
    // (b) every pattern of length <= 3 over {00,01,7F,FF} and every constant byte, repeated to every length <= 1500
    let mut patterns: Vec<Vec<u8>> = (0..=255u8).map(|b| vec![b]).collect();
    let b4 = [0x00u8, 0x01, 0x7f, 0xff];
    for &a in &b4 {
        for &b in &b4 {
            if a != b {
                patterns.push(vec![a, b]);
            }
            for &c in &b4 {
                if !(a == b && b == c) {
                    patterns.push(vec![a, b, c]);
                }
            }
        }
    }
    let maxlen = ctx.tier.pick(1500usize, 6000);
    let acc = par_shards(patterns.len() * 3, |ii, acc| {
        let i = ii / 3;
        let dirty = (ii % 3) as u8;
        let p = &patterns[i];
        let mut g = if dirty > 0 { start_generator_dirty_kind(0, dirty) } else { Generator::new() };
        let mut r = Ctph::new(0);
        let form = FORMS3[i % 3];
        for n in 0..maxlen {
            let c = p[n % p.len()];
            if let Some(m) = step(&mut g, &mut r, &[c], form, acc) {
                let whole: Vec<u8> = (0..=n).map(|k| p[k % p.len()]).collect();
                let ch = vec![Chunk { word: whole, count: 1, form }];
                let mut cj = case_json(0, &ch, None);
                cj["dirty_start"] = json!(dirty);
                acc.violation(format!("S3b pattern={} len={}{}", hex(p), n + 1, if dirty > 0 { " reused-generator" } else { "" }), m, cj);
                return;
            }
        }
        if dirty > 0 {
            return;
        }
        // the whole string as one slice + hash_buf
        let whole: Vec<u8> = (0..maxlen).map(|k| p[k % p.len()]).collect();
        let ch = vec![Chunk { word: whole, count: 1, form: Form::Slice }];
        one_slice_check(&env, "S3b", 0, &ch, &r, acc);
        note_state(&g, &r, acc);
        if i == 255 {
            acc.sample(json!({"pattern": hex(p), "repeated_to_every_length_up_to": maxlen}));
        }
    });
    acc.into_report(&mut rep, "S3b_periodic_and_constant_strings_every_length");

    // ------------------------------------------------------------ S4 (supplementary, seeded; outside the exhaustive claim)
    let n4 = ctx.tier.pick(4usize, 24);
    let len4 = ctx.tier.pick(60_000usize, 200_000);
    let acc = par_shards(n4, |i, acc| {
        let mut lcg = Lcg(ctx.seed.wrapping_mul(977).wrapping_add(i as u64 + 1));
        let data: Vec<u8> = match i % 4 {
            0 => lcg.bytes(len4),
            1 => (0..len4).map(|_| (lcg.next() >> 9) as u8 & 1).collect(),
            2 => (0..len4).map(|_| if lcg.next() % 11 == 0 { (lcg.next() >> 8) as u8 } else { 0 }).collect(),
            _ => {
                // words from the trigger table in seeded order
                let mut v = vec![];
                while v.len() < len4 {
                    v.extend_from_slice(&alpha[(lcg.next() as usize >> 5) % na].1);
                }
                v
            }
        };
        let mut g = Generator::new();
        let mut r = Ctph::new(0);
        let form = FORMS3[i % 3];
        for (n, &c) in data.iter().enumerate() {
            if let Some(m) = step(&mut g, &mut r, &[c], form, acc) {
                let ch = vec![Chunk { word: data[..=n].to_vec(), count: 1, form }];
                acc.violation(format!("S4 stream={} len={}", i, n + 1), m, case_json(0, &ch, None));
                return;
            }
        }
        let ch = vec![Chunk { word: data.clone(), count: 1, form: Form::Slice }];
        one_slice_check(&env, "S4", 0, &ch, &r, acc);
        note_state(&g, &r, acc);
    });
    acc.into_report(&mut rep, "S4_seeded_streams_every_prefix(supplementary)");

    rep.set("exhaustive", true);
    rep.set("exhaustive_scope", "S1, S2, S3 are enumerated completely within the stated bounds; S4 is supplementary (seeded) and outside the exhaustive claim");
    rep.set(
        "rule",
        "lock-step enumeration: alphabet = 31 trigger words W0..W30 (7 bytes; W_k ends a piece at levels 0..=k), Z (7 zero bytes), U (roll = 0xFFFFFFFF), F (filler), bytes 00 and 01, and five corner words (roll+1 = the largest multiple of 3, 0xFFFFFFFC, 3, 6, and 0xBFFFFFFF just below 3*2^30); S1 = all sequences of length <=3 from new() and zero-prefix starts; S2 = sym1^c1 sym2^c2 [sym3^c3] with every count 1..66 on the way (one-slice re-feed at counts {1,2,31,32,33,63,64,65,66}); S3 = all byte strings over {00,01,FF} up to the tier length, every constant byte and short pattern repeated to every length (on a fresh and on two kinds of reused generator: all 31 contexts populated by an earlier input, or an earlier input digested under a small declared size; then reset()); S1 also from reused generators; forms rotate over update/update_by_iter/update_by_byte/+=slice/+=byte; every step compares finalize, finalize_without_truncation, finalize_raw::<false,64,32>, input_size and the small-size warning with the declarative reference. A case = one prefix; all are distinct by construction; non-trivial = at least one byte fed.",
    );
    rep.assume("refmodel::ctph is ssdeep 2.14.1 (bound to 472 libfuzzy vectors and two multi-GiB libfuzzy vectors by the self-test on every run)");
    rep.assume("zero-prefix starts use hook H1 (validated against really feeding zeros at the start of this run)");
    rep
}

/// H1 validation (part of the machinery): hook(0) renders like new(); the
/// inductive step `step(hook(N), 0) == hook(N+1)`; hook(N) == really feeding N zeros.
pub fn validate_hook(ctx: &Ctx) -> Result<(), String> {
    let d = |g: &Generator| format!("{:?}", g);
    if d(&Generator::verif_new_with_prefix_zeroes(0)) != d(&Generator::new()) {
        return Err("hook(0) != new()".into());
    }
    let mut real = Generator::new();
    let limit = ctx.tier.pick(4096u64, 1 << 16);
    for n in 0..limit {
        let h = Generator::verif_new_with_prefix_zeroes(n);
        if d(&h) != d(&real) {
            return Err(format!("hook({}) differs from feeding {} zero bytes", n, n));
        }
        let mut h2 = h.clone();
        h2.update_by_byte(0);
        if d(&h2) != d(&Generator::verif_new_with_prefix_zeroes(n + 1)) {
            return Err(format!("step(hook({}), 0) != hook({})", n, n + 1));
        }
        real.update_by_byte(0);
    }
    for n in 0..=30u32 {
        for delta in [-2i64, -1, 0, 1, 2] {
            let base = ((192u64 << n) as i64 + delta) as u64;
            let mut h = Generator::verif_new_with_prefix_zeroes(base);
            h.update(&[0]);
            if d(&h) != d(&Generator::verif_new_with_prefix_zeroes(base + 1)) {
                return Err(format!("inductive step fails at {}", base));
            }
            // in-place form: skip(a) then skip(b) == hook(a+b), from a zero-window state
            let mut s = Generator::verif_new_with_prefix_zeroes(3);
            s.verif_feed_zero_bytes(base - 3);
            if d(&s) != d(&Generator::verif_new_with_prefix_zeroes(base)) {
                return Err(format!("in-place skip to {} differs from hook", base));
            }
        }
    }
    Ok(())
}
