//! (stub)
use crate::common::*;
use serde_json::Value;
pub fn replay(_c: &Value) -> Result<(), String> { Err("not implemented".into()) }
pub fn run(_ctx: &Ctx) -> Report { Report::new("model_checking") }
