//! C18 — stream and file hashing fail closed under I/O faults.
//!
//! E-FAULT: a scripted `std::io::Read` whose answers (bytes delivered, error
//! kind) come from a choice vector; all vectors with at most d deviations from
//! the default answer ("fill the buffer") are run, d = 0, 1, 2.

use crate::common::*;
use crate::corpus;
use refmodel::ctph::ctph;
use serde_json::{json, Value};
use ssdeep::{Generator, GeneratorError, GeneratorOrIOError};
use std::io::{self, ErrorKind, Read};

/// One environment answer.
#[derive(Clone, Copy, Debug, PartialEq, Eq)]
pub enum Answer {
    /// deliver up to `n` bytes (capped by the buffer and the remaining payload)
    Short(usize),
    /// fail with this error kind
    Fail(ErrorKind),
}

/// Reader delivering `payload`; read call #i follows `script[i]` if present,
/// else the policy default (`fill` = fill the buffer, or at most `policy` bytes).
pub struct ScriptedReader<'a> {
    pub payload: &'a [u8],
    pub pos: usize,
    pub calls: usize,
    pub policy: usize,
    pub script: Vec<(usize, Answer)>,
    pub delivered_log: Vec<usize>,
    /// the error kind this reader returned (nothing is read after it by a correct caller)
    pub failed: Option<ErrorKind>,
    /// the reader answered Ok(0) to a non-empty buffer (end of stream was observed by the caller)
    pub saw_eof: bool,
    pub calls_after_end: usize,
}
impl<'a> ScriptedReader<'a> {
    pub fn new(payload: &'a [u8], policy: usize, script: Vec<(usize, Answer)>) -> Self {
        ScriptedReader { payload, pos: 0, calls: 0, policy, script, delivered_log: vec![], failed: None, saw_eof: false, calls_after_end: 0 }
    }
}
impl Read for ScriptedReader<'_> {
    fn read(&mut self, buf: &mut [u8]) -> io::Result<usize> {
        let call = self.calls;
        self.calls += 1;
        if self.failed.is_some() || self.saw_eof {
            self.calls_after_end += 1;
        }
        let ans = self.script.iter().find(|(i, _)| *i == call).map(|(_, a)| *a);
        let want = match ans {
            Some(Answer::Fail(k)) => {
                self.failed = Some(k);
                // the payload names the failing call, so that "returned as THAT error" can be told from "an error of
                // the same kind"
                if call % 4 == 3 {
                    // a reader stacked on another generator: the payload is one of the crate's own error values
                    return Err(io::Error::new(k, ssdeep::GeneratorError::FixedSizeMismatch));
                }
                return Err(io::Error::new(k, format!("injected fault at read call {}", call)));
            }
            Some(Answer::Short(n)) => n,
            None => self.policy,
        };
        let n = want.min(buf.len()).min(self.payload.len() - self.pos);
        buf[..n].copy_from_slice(&self.payload[self.pos..self.pos + n]);
        self.pos += n;
        self.delivered_log.push(n);
        if n == 0 && !buf.is_empty() {
            self.saw_eof = true;
        }
        Ok(n)
    }
}

pub const KINDS: [ErrorKind; 6] =
    [ErrorKind::Other, ErrorKind::UnexpectedEof, ErrorKind::Interrupted, ErrorKind::WouldBlock, ErrorKind::PermissionDenied, ErrorKind::TimedOut];

fn kind_name(k: ErrorKind) -> String {
    format!("{:?}", k)
}
fn kind_from(s: &str) -> Option<ErrorKind> {
    KINDS.iter().copied().find(|k| kind_name(*k) == s)
}

pub fn payload(len: usize) -> Vec<u8> {
    // deterministic, piece-rich payload: trigger words in a fixed order
    let mut v = Vec::with_capacity(len + 7);
    let mut k = 0usize;
    while v.len() < len {
        v.extend_from_slice(&corpus::W[(k * 7 + k / 3) % 12]);
        k += 1;
    }
    v.truncate(len);
    v
}

fn res_string(r: &Result<ssdeep::RawFuzzyHash, GeneratorOrIOError>) -> String {
    match r {
        Ok(h) => h.to_string(),
        Err(GeneratorOrIOError::GeneratorError(e)) => format!("Err(GeneratorError({:?}))", e),
        Err(GeneratorOrIOError::IOError(e)) => format!("Err(IOError({:?}))", e.kind()),
    }
}

/// One execution: `declared` = None uses `hash_stream`, Some(d) the hook H2
/// forwarder with a generator on which d was declared.
pub fn run_one(len: usize, policy: usize, script: &[(usize, Answer)], declared: Option<u64>) -> Result<String, String> {
    // a panic escaping from the library through any call below is a violation of this case, not a crash
    guard_case(|| run_one_unguarded(len, policy, script, declared))
}

fn run_one_unguarded(len: usize, policy: usize, script: &[(usize, Answer)], declared: Option<u64>) -> Result<String, String> {
    let data = payload(len);
    let mut rd = ScriptedReader::new(&data, policy, script.to_vec());
    let res = match declared {
        None => guarded(|| ssdeep::hash_stream(&mut rd))?,
        Some(d) => {
            let mut g = Generator::new();
            g.set_fixed_input_size(d).map_err(|e| format!("{:?}", e))?;
            guarded(|| ssdeep::verif_hash_stream_with(&mut g, &mut rd))?
        }
    };
    let got = res_string(&res);
    // identity of the I/O error: kind (below) and payload
    if let (Some(_), Err(GeneratorOrIOError::IOError(e))) = (rd.failed, &res) {
        let call = rd.calls - 1 - rd.calls_after_end;
        let want = if call % 4 == 3 { format!("{}", ssdeep::GeneratorError::FixedSizeMismatch) } else { format!("injected fault at read call {}", call) };
        let payload_ok = e.get_ref().map(|p| p.to_string() == want).unwrap_or(false);
        if !payload_ok || e.to_string() != want {
            return Err(format!("len={} policy={} script={:?} declared={:?}: the I/O error that came back is not the reader's error (message {:?}, payload {:?}; the reader failed with {:?})", len, policy, script, declared, e.to_string(), e.get_ref().map(|p| p.to_string()), want));
        }
    }
    // The oracle is independent of the caller's buffer size: what the reader was actually asked decides.
    //  * the reader returned an error  => the result must be exactly that I/O error (no hash);
    //  * otherwise the caller must have read until it saw end of stream (Ok(0)), and the result is the
    //    hash of the bytes delivered (or the size-mismatch error when a different size was declared).
    let failure = rd.failed;
    let pos = rd.pos;
    let exp = match failure {
        Some(k) => format!("Err(IOError({:?}))", k),
        None => {
            if !rd.saw_eof {
                return Err(format!(
                    "len={} policy={} script={:?} declared={:?}: the reader was abandoned after {} of {} bytes without an error or end of stream; result {}",
                    len, policy, script, declared, pos, len, got
                ));
            }
            let delivered = &data[..pos];
            match declared {
                Some(d) if d != pos as u64 => format!("Err(GeneratorError({:?}))", GeneratorError::FixedSizeMismatch),
                _ => ctph(0, delivered).map(|d| d.text_trunc()).unwrap_or_else(|_| "Err(GeneratorError(InputSizeTooLarge))".into()),
            }
        }
    };
    if got != exp {
        return Err(format!("len={} policy={} script={:?} declared={:?}: got {} expected {}", len, policy, script, declared, got, exp));
    }
    Ok(if failure.is_some() { "io-error".into() } else if exp.starts_with("Err") { "generator-error".into() } else { "hash".into() })
}

fn ans_json(a: &(usize, Answer)) -> Value {
    match a.1 {
        Answer::Short(n) => json!({"read": a.0, "short": n}),
        Answer::Fail(k) => json!({"read": a.0, "fail": kind_name(k)}),
    }
}
fn case(len: usize, policy: usize, script: &[(usize, Answer)], declared: Option<u64>) -> Value {
    json!({"kind":"reader","len":len,"policy":policy,"script":script.iter().map(ans_json).collect::<Vec<_>>(),"declared":declared})
}

fn file_case(kind: &str, dir: &std::path::Path) -> Result<String, String> {
    // a panic escaping from the library through any call below is a violation of this case, not a crash
    guard_case(|| file_case_unguarded(kind, dir))
}

fn file_case_unguarded(kind: &str, dir: &std::path::Path) -> Result<String, String> {
    let r = |p: &std::path::Path| guarded(|| ssdeep::hash_file(p)).map(|r| res_string(&r));
    match kind {
        "missing" => {
            let got = r(&dir.join("does-not-exist"))?;
            if got != "Err(IOError(NotFound))" {
                return Err(format!("missing file gives {}", got));
            }
            Ok("io-error".into())
        }
        "directory" => {
            let got = r(dir)?;
            if !got.starts_with("Err(") {
                return Err(format!("a directory gives {}", got));
            }
            Ok("error".into())
        }
        "dev-null" => {
            let got = r(std::path::Path::new("/dev/null"))?;
            if got != "3::" {
                return Err(format!("/dev/null gives {}", got));
            }
            Ok("hash".into())
        }
        k if k.starts_with("proc:") => {
            // metadata size 0, content non-empty: must be an error, never a hash
            let p = std::path::Path::new(&k[5..]);
            // an entry that does not exist / cannot be read in this environment is simply not applicable
            let content = std::fs::read(p);
            let meta = std::fs::metadata(p).map(|m| m.len());
            match (content, meta) {
                (Ok(c), Ok(m)) if c.len() as u64 != m => {
                    let got = r(p)?;
                    if !got.starts_with("Err(") {
                        return Err(format!("{} (metadata size {}, content {} bytes) gives {}", p.display(), m, c.len(), got));
                    }
                    Ok("size-mismatch-error".into())
                }
                _ => Ok("not-applicable-here".into()),
            }
        }
        k if k.starts_with("fifo:") => {
            // a named pipe: metadata size 0, delivers `len` > 0 bytes: must be an error, never a hash
            use std::io::Read;
            use std::os::unix::fs::OpenOptionsExt;
            let len: usize = k[5..].parse().map_err(|_| "len")?;
            let p = dir.join(format!("fifo-{}-{}", len, std::process::id()));
            let _ = std::fs::remove_file(&p);
            let made = std::process::Command::new("mkfifo").arg(&p).status().map(|s| s.success()).unwrap_or(false);
            if !made {
                return Ok("not-applicable-here".into());
            }
            let data = payload(len);
            let p2 = p.clone();
            // the writer blocks in open() until somebody opens the pipe for reading
            let w = std::thread::spawn(move || {
                use std::io::Write;
                if let Ok(mut f) = std::fs::OpenOptions::new().write(true).open(&p2) {
                    let _ = f.write_all(&data);
                }
            });
            let got = r(&p);
            // release the writer whatever hash_file did (it may not have opened the pipe at all): a non-blocking
            // reader unblocks its open(); drain until it is done
            if let Ok(mut f) = std::fs::OpenOptions::new().read(true).custom_flags(0x800 /* O_NONBLOCK */).open(&p) {
                let mut buf = [0u8; 65536];
                let t0 = std::time::Instant::now();
                while !w.is_finished() && t0.elapsed().as_secs() < 20 {
                    let _ = f.read(&mut buf);
                    std::thread::sleep(std::time::Duration::from_millis(1));
                }
            }
            if w.is_finished() {
                let _ = w.join();
            }
            let _ = std::fs::remove_file(&p);
            let got = got?;
            if !got.starts_with("Err(") {
                return Err(format!("a named pipe (metadata size 0) delivering {} bytes gives {}", len, got));
            }
            Ok("size-mismatch-error".into())
        }
        k if k.starts_with("file:") => {
            let len: usize = k[5..].parse().map_err(|_| "len")?;
            let data = payload(len);
            let p = dir.join(format!("payload-{}.bin", len));
            std::fs::write(&p, &data).map_err(|e| format!("cannot write scratch file: {}", e))?;
            let got = r(&p)?;
            let exp = ctph(0, &data).map(|d| d.text_trunc()).map_err(|_| "ref")?;
            let _ = std::fs::remove_file(&p);
            if got != exp {
                return Err(format!("hash_file of a {}-byte file gives {} expected {}", len, got, exp));
            }
            Ok("hash".into())
        }
        _ => Err("bad file case".into()),
    }
}

pub fn replay(c: &Value) -> Result<(), String> {
    match c["kind"].as_str() {
        Some("reader") => {
            let len = c["len"].as_u64().ok_or("len")? as usize;
            let policy = c["policy"].as_u64().ok_or("policy")? as usize;
            let mut script = vec![];
            for a in c["script"].as_array().ok_or("script")? {
                let i = a["read"].as_u64().ok_or("read")? as usize;
                if let Some(n) = a["short"].as_u64() {
                    script.push((i, Answer::Short(n as usize)));
                } else {
                    script.push((i, Answer::Fail(a["fail"].as_str().and_then(kind_from).ok_or("kind")?)));
                }
            }
            run_one(len, policy, &script, c["declared"].as_u64()).map(|_| ())
        }
        Some("file") => {
            let dir = std::path::PathBuf::from("/verif/.build/c18-scratch");
            std::fs::create_dir_all(&dir).map_err(|e| e.to_string())?;
            file_case(c["file"].as_str().ok_or("file")?, &dir).map(|_| ())
        }
        _ => Err("bad case".into()),
    }
}

/// All scripts with at most `d` deviations over the first `reads` read calls.
pub fn scripts(reads: usize, shorts: &[usize], kinds: &[ErrorKind], d: usize) -> Vec<Vec<(usize, Answer)>> {
    let mut answers: Vec<Answer> = shorts.iter().map(|&n| Answer::Short(n)).collect();
    answers.extend(kinds.iter().map(|&k| Answer::Fail(k)));
    let mut out: Vec<Vec<(usize, Answer)>> = vec![vec![]];
    if d >= 1 {
        for i in 0..reads {
            for &a in &answers {
                out.push(vec![(i, a)]);
            }
        }
    }
    if d >= 2 {
        for i in 0..reads {
            for j in (i + 1)..reads {
                for &a in &answers {
                    if matches!(a, Answer::Fail(_)) {
                        continue; // nothing is read after a failure
                    }
                    for &b in &answers {
                        out.push(vec![(i, a), (j, b)]);
                    }
                }
            }
        }
    }
    out
}

pub fn run(ctx: &Ctx) -> Report {
    let mut rep = Report::new("fault_enumeration");
    let thorough = ctx.tier == Tier::Thorough;
    let lens: Vec<usize> = vec![0, 1, 100, 32767, 32768, 32769, 70000];
    let policies: Vec<usize> = vec![usize::MAX, 1, 7, 4096, 32768];
    // (a) + (b): every script with <= 2 deviations under each read policy
    let mut jobs: Vec<(usize, usize, Vec<(usize, Answer)>, Option<u64>)> = vec![];
    for &len in &lens {
        for &policy in &policies {
            // number of read calls under the default policy (plus the terminating zero read)
            let per = policy.min(32768);
            let nreads_full = len / per + 2;
            // for byte-at-a-time policies on large payloads only the first and last reads are scripted
            let reads: Vec<usize> = if nreads_full <= 8 {
                (0..nreads_full).collect()
            } else {
                let mut v: Vec<usize> = (0..3).collect();
                v.extend([nreads_full / 2, nreads_full - 3, nreads_full - 2, nreads_full - 1]);
                v
            };
            if policy <= 7 && len > 1000 && !thorough {
                // byte-at-a-time over 32 KiB is slow; quick keeps single deviations only
                for &i in &reads {
                    for &k in &KINDS {
                        jobs.push((len, policy, vec![(i, Answer::Fail(k))], None));
                    }
                    jobs.push((len, policy, vec![(i, Answer::Short(3))], None));
                }
                jobs.push((len, policy, vec![], None));
                continue;
            }
            let shorts = [1usize, 6, 7, 4095, 32767];
            let base = scripts(reads.len(), &shorts, &KINDS, 2);
            for s in base {
                let mapped: Vec<(usize, Answer)> = s.iter().map(|(i, a)| (reads[*i], *a)).collect();
                jobs.push((len, policy, mapped, None));
            }
        }
    }
    // (c) declared sizes through hook H2
    for &len in &lens {
        for d in [len.saturating_sub(1) as u64, len as u64, len as u64 + 1, 0] {
            for s in scripts(3, &[1, 7, 32767], &[ErrorKind::Other, ErrorKind::Interrupted], 1) {
                jobs.push((len, usize::MAX, s, Some(d)));
            }
        }
    }
    // zero-length short read in the middle = end of stream for the caller: hash of the prefix (documented Read semantics)
    jobs.push((70000, usize::MAX, vec![(1, Answer::Short(0))], None));
    jobs.push((70000, usize::MAX, vec![(1, Answer::Short(0))], Some(70000)));
    jobs.sort_by(|a, b| format!("{:?}", a).cmp(&format!("{:?}", b)));
    jobs.dedup_by(|a, b| format!("{:?}", a) == format!("{:?}", b));
    let acc = par_shards(jobs.len(), |i, acc| {
        let (len, policy, script, declared) = &jobs[i];
        acc.evaluations += 1;
        if !script.is_empty() {
            acc.nontrivial += 1;
        }
        acc.count(&format!("deviations={}", script.len()), 1);
        match run_one(*len, *policy, script, *declared) {
            Ok(o) => acc.bump(&o),
            Err(e) => acc.violation(
                format!("reader len={} policy={} script={:?} declared={:?}", len, policy, script, declared),
                e,
                case(*len, *policy, script, *declared),
            ),
        }
        if i % 5000 == 17 {
            acc.sample(case(*len, *policy, script, *declared));
        }
    });
    acc.into_report(&mut rep, "scripted_reader_up_to_2_deviations");
    // (d) real files
    let dir = ctx.verif_dir.join(".build").join("c18-scratch");
    let _ = std::fs::create_dir_all(&dir);
    let mut files: Vec<String> = vec!["missing".into(), "directory".into(), "dev-null".into(), "proc:/proc/self/status".into(), "proc:/proc/self/cmdline".into(), "proc:/proc/self/maps".into()];
    for &l in &lens {
        files.push(format!("file:{}", l));
    }
    for l in [1usize, 100, 32768, 70000] {
        files.push(format!("fifo:{}", l));
    }
    let mut acc = Acc::default();
    for f in &files {
        acc.evaluations += 1;
        acc.nontrivial += 1;
        match file_case(f, &dir) {
            Ok(o) => acc.bump(&o),
            Err(e) => acc.violation(format!("file {}", f), e, json!({"kind":"file","file":f})),
        }
    }
    acc.sample(json!({"kind":"file","file":"proc:/proc/self/status"}));
    acc.into_report(&mut rep, "real_files");
    rep.set("exhaustive", true);
    rep.set(
        "rule",
        "payloads of length {0,1,100,32767,32768,32769,70000} (trigger-word content) x read policies {fill, 1, 7, 4096, 32768 bytes per read} x every script with <= 2 deviations over the read calls (deviation = a short read of {1,6,7,4095,32767} bytes or a failure with kind {Other, UnexpectedEof, Interrupted, WouldBlock, PermissionDenied, TimedOut}); a failure must come back as that I/O error (same kind, same payload) and no hash, short reads must give the hash of the delivered bytes; through hook H2 with declared size {len-1,len,len+1,0}: Ok iff the declared size equals the delivered bytes, faults still win; real files: regular files of each length, missing path, directory, procfs entries whose metadata size disagrees with their content, named pipes (metadata size 0) delivering {1,100,32768,70000} bytes from a writer thread, /dev/null.  A case is one (payload, policy, script, declared) execution; non-trivial = at least one deviation.",
    );
    rep.assume("std::io::Read semantics: Ok(0) is end of stream; the reader loop uses a 32 KiB buffer (the model replays the script against that size)");
    rep
}
