//! C03 — the hash depends only on the byte stream, not on how it is fed.
//!
//! Explicit-state search.  For a fixed byte string X: state = (position p, real
//! `Generator`, deviations used); actions = feed the next k bytes through one
//! of the update forms (k from a chunk menu).  In every state the observables
//! must equal those of the reference after X[..p] (and of a fresh generator fed
//! X[..p] in one call); finalising must not disturb the generator.  Two
//! regimes: full closure (any number of chunked calls) for short strings, and
//! deviation-bounded (default = next byte by `update_by_byte`; a deviation is a
//! chunked call) for long ones.  At the end: `hash_buf` and `hash_stream` under
//! the scripted reader of C18.

use crate::c18::{Answer, ScriptedReader};
use crate::common::*;
use crate::corpus;
use crate::explore;
use crate::gen_util::*;
use refmodel::ctph::Ctph;
use serde_json::{json, Value};
use ssdeep::Generator;
use stateright::{Model, Property};
use std::hash::{Hash, Hasher};
use std::sync::atomic::{AtomicU64, Ordering as AO};
use std::sync::Arc;

#[derive(Clone, Copy, Debug, PartialEq, Eq, Hash)]
pub enum CForm {
    Slice,
    Iter,
    /// update_by_iter with an iterator whose size hint is inexact (lower 0, upper an over-estimate)
    IterInexact,
    AddSlice,
    AddArray,
    Byte,
    AddByte,
}
const CFORMS: [CForm; 7] = [CForm::Slice, CForm::Iter, CForm::IterInexact, CForm::AddSlice, CForm::AddArray, CForm::Byte, CForm::AddByte];

fn feed_c(g: &mut Generator, d: &[u8], f: CForm) {
    match f {
        CForm::Slice => {
            g.update(d);
        }
        CForm::Iter => {
            g.update_by_iter(d.iter().copied());
        }
        CForm::IterInexact => {
            let doubled: Vec<(bool, u8)> = d.iter().flat_map(|&b| [(true, b), (false, !b)]).collect();
            g.update_by_iter(doubled.iter().filter(|x| x.0).map(|x| x.1));
        }
        CForm::AddSlice => {
            *g += d;
        }
        CForm::AddArray => {
            // += &[u8; N] for the array sizes of the menu; other sizes through the slice form
            macro_rules! arr {
                ($($n:expr),*) => {
                    match d.len() {
                        $($n => { let a: [u8; $n] = d.try_into().unwrap(); *g += &a; })*
                        _ => { *g += d; }
                    }
                };
            }
            arr!(0, 1, 2, 3, 4, 5, 6, 7, 8, 9, 15, 16, 17, 33, 63, 64, 65, 100);
        }
        CForm::Byte => {
            for &c in d {
                g.update_by_byte(c);
            }
        }
        CForm::AddByte => {
            for &c in d {
                *g += c;
            }
        }
    }
}

#[derive(Clone, Debug)]
pub struct St {
    p: usize,
    g: Generator,
    dev: usize,
    bad: Option<String>,
    key: (u64, u64),
}
impl St {
    fn new(p: usize, g: Generator, dev: usize, bad: Option<String>) -> Self {
        let d = format!("{:?}", g);
        // 128-bit key over the complete Debug rendering (two independent FNV-1a passes)
        let k1 = h64(d.as_bytes());
        let mut k2: u64 = 0x9E3779B97F4A7C15;
        for &b in d.as_bytes() {
            k2 = (k2 ^ b as u64).wrapping_mul(0x100000001b3).rotate_left(5);
        }
        St { p, g, dev, bad, key: (k1, k2) }
    }
}
impl PartialEq for St {
    fn eq(&self, o: &Self) -> bool {
        self.p == o.p && self.dev == o.dev && self.key == o.key && self.bad.is_some() == o.bad.is_some()
    }
}
impl Eq for St {}
impl Hash for St {
    fn hash<H: Hasher>(&self, h: &mut H) {
        self.p.hash(h);
        self.dev.hash(h);
        self.key.hash(h);
        self.bad.is_some().hash(h);
    }
}

pub struct ChunkModel {
    pub x: Arc<Vec<u8>>,
    pub zero_prefix: u64,
    /// expected observables after X[..p], from the reference
    pub expected: Arc<Vec<Obs>>,
    pub menu: Vec<usize>,
    pub forms: Vec<CForm>,
    /// None = full closure; Some(d) = at most d chunked calls, default action is one byte by update_by_byte
    pub max_dev: Option<usize>,
    pub counter: Arc<AtomicU64>,
}

fn start(zp: u64) -> Generator {
    if zp == 0 {
        Generator::new()
    } else {
        Generator::verif_new_with_prefix_zeroes(zp)
    }
}

impl ChunkModel {
    pub fn new(x: Vec<u8>, zero_prefix: u64, menu: Vec<usize>, forms: Vec<CForm>, max_dev: Option<usize>) -> Self {
        let mut r = Ctph::new(zero_prefix);
        let mut expected = Vec::with_capacity(x.len() + 1);
        expected.push(crate::gen_util::expected(&r));
        for &c in &x {
            r.feed(c);
            expected.push(crate::gen_util::expected(&r));
        }
        ChunkModel { x: Arc::new(x), zero_prefix, expected: Arc::new(expected), menu, forms, max_dev, counter: Arc::new(AtomicU64::new(0)) }
    }
    fn judge(&self, s: &St) -> Result<(), String> {
        if let Some(b) = &s.bad {
            return Err(b.clone());
        }
        let before = format!("{:?}", s.g);
        let obs = observe(&s.g).map_err(|p| format!("panic in finalize: {}", p))?;
        if format!("{:?}", s.g) != before {
            return Err("finalization disturbed the generator".into());
        }
        if obs != self.expected[s.p] {
            return Err(format!("after {} bytes: expected {:?} observed {:?}", s.p, self.expected[s.p], obs));
        }
        Ok(())
    }
}

impl Model for ChunkModel {
    type State = St;
    type Action = (usize, CForm);
    fn init_states(&self) -> Vec<St> {
        vec![St::new(0, start(self.zero_prefix), 0, None)]
    }
    fn actions(&self, s: &St, a: &mut Vec<(usize, CForm)>) {
        if s.bad.is_some() || s.p >= self.x.len() {
            return;
        }
        let rest = self.x.len() - s.p;
        if let Some(d) = self.max_dev {
            a.push((1, CForm::Byte)); // the default environment answer
            if s.dev >= d {
                return;
            }
        }
        for &k in &self.menu {
            let k = if k == usize::MAX { rest } else { k };
            if k > rest {
                continue;
            }
            for &f in &self.forms {
                if self.max_dev.is_some() && k == 1 && f == CForm::Byte {
                    continue;
                }
                if (f == CForm::Byte || f == CForm::AddByte) && k != 1 {
                    continue; // byte forms are single-byte calls
                }
                a.push((k, f));
            }
        }
    }
    fn next_state(&self, s: &St, (k, f): (usize, CForm)) -> Option<St> {
        self.counter.fetch_add(1, AO::Relaxed);
        let mut g = s.g.clone();
        let data = &self.x[s.p..s.p + k];
        let res = guarded(|| feed_c(&mut g, data, f));
        let is_default = self.max_dev.is_some() && k == 1 && f == CForm::Byte;
        let dev = if self.max_dev.is_some() && !is_default { s.dev + 1 } else { s.dev };
        let bad = res.err().map(|p| format!("panic in update ({} bytes, {:?}): {}", k, f, p));
        // a zero-length call (on a clone) is an ordinary transition: whether it changes unobservable
        // internals is not the property's business; the observables of the resulting state are checked
        Some(St::new(s.p + k, g, dev, bad))
    }
    fn properties(&self) -> Vec<Property<Self>> {
        vec![Property::always("observables-depend-only-on-the-bytes-fed", |m, s: &St| m.judge(s).is_ok())]
    }
}

fn form_from(s: &str) -> Option<CForm> {
    CFORMS.iter().copied().find(|f| format!("{:?}", f) == s)
}

/// Plain re-execution of a chunking (used by replay and for the recorded traces).
fn run_chunking(x: &[u8], zp: u64, calls: &[(usize, CForm)], with_clone_and_finalize: bool) -> Result<(), String> {
    // a panic escaping from the library through any call below is a violation of this case, not a crash
    guard_case(|| run_chunking_unguarded(x, zp, calls, with_clone_and_finalize))
}

fn run_chunking_unguarded(x: &[u8], zp: u64, calls: &[(usize, CForm)], with_clone_and_finalize: bool) -> Result<(), String> {
    let mut g = start(zp);
    let mut r = Ctph::new(zp);
    let mut p = 0usize;
    if let Some(m) = mismatch(&g, &r) {
        return Err(format!("before any call: {}", m));
    }
    for (i, &(k, f)) in calls.iter().enumerate() {
        if p + k > x.len() {
            return Err("bad case: chunking longer than the string".into());
        }
        guarded(|| feed_c(&mut g, &x[p..p + k], f)).map_err(|e| format!("panic in call {}: {}", i, e))?;
        r.feed_all(&x[p..p + k]);
        p += k;
        // continue on a clone after every call (clones are part of the property and the explored
        // model clones the generator at every transition); finalize the original in between
        {
            let c = g.clone();
            if with_clone_and_finalize {
                let _ = g.finalize();
                let _ = g.finalize_without_truncation();
            }
            g = c;
        }
        if let Some(m) = mismatch(&g, &r) {
            return Err(format!("after call {} ({} bytes via {:?}, {} bytes in total): {}", i + 1, k, f, p, m));
        }
    }
    // one-call generator and the one-shot buffer function at the end
    if p == x.len() {
        let mut one = start(zp);
        one.update(x);
        if let Some(m) = mismatch(&one, &r) {
            return Err(format!("one-call generator: {}", m));
        }
        if format!("{:?}", observe(&one)) != format!("{:?}", observe(&g)) {
            return Err("chunked and one-call generators disagree".into());
        }
        if zp == 0 {
            let hb = guarded(|| ssdeep::hash_buf(x))?.map(|h| h.to_string()).unwrap_or_else(|e| format!("Err({:?})", e));
            if hb != expected(&r).fin {
                return Err(format!("hash_buf gives {} expected {}", hb, expected(&r).fin));
            }
        }
    }
    Ok(())
}

fn reader_case(x: &[u8], script: &[(usize, Answer)]) -> Result<(), String> {
    // a panic escaping from the library through any call below is a violation of this case, not a crash
    guard_case(|| reader_case_unguarded(x, script))
}

fn reader_case_unguarded(x: &[u8], script: &[(usize, Answer)]) -> Result<(), String> {
    let mut rd = ScriptedReader::new(x, usize::MAX, script.to_vec());
    let got = guarded(|| ssdeep::hash_stream(&mut rd))?.map(|h| h.to_string()).map_err(|e| format!("hash_stream failed: {}", e))?;
    let exp = refmodel::ctph::ctph(0, x).map(|d| d.text_trunc()).map_err(|_| "ref")?;
    if got != exp {
        return Err(format!("hash_stream under short reads {:?} gives {} expected {}", script, got, exp));
    }
    Ok(())
}

fn build_x(spec: &Value) -> Result<(Vec<u8>, u64), String> {
    let zp = spec["zero_prefix"].as_u64().unwrap_or(0);
    Ok((unhex(spec["x"].as_str().ok_or("x")?), zp))
}

pub fn replay(c: &Value) -> Result<(), String> {
    let (x, zp) = build_x(c)?;
    match c["kind"].as_str() {
        Some("chunking") => {
            let calls: Vec<(usize, CForm)> = c["calls"]
                .as_array()
                .ok_or("calls")?
                .iter()
                .map(|v| Ok((v[0].as_u64().ok_or("k")? as usize, v[1].as_str().and_then(form_from).ok_or("form")?)))
                .collect::<Result<_, String>>()?;
            run_chunking(&x, zp, &calls, false)
        }
        Some("reader") => {
            let script: Vec<(usize, Answer)> = c["script"]
                .as_array()
                .ok_or("script")?
                .iter()
                .map(|v| (v[0].as_u64().unwrap_or(0) as usize, Answer::Short(v[1].as_u64().unwrap_or(0) as usize)))
                .collect();
            reader_case(&x, &script)
        }
        _ => Err("bad case".into()),
    }
}

fn chunk_case(x: &[u8], zp: u64, calls: &[(usize, CForm)]) -> Value {
    json!({"kind":"chunking","x":hex(x),"zero_prefix":zp,"calls":calls.iter().map(|c| json!([c.0, format!("{:?}", c.1)])).collect::<Vec<_>>()})
}

/// byte values whose constant repetition ends a piece on every byte at level >= `min_level`
fn constant_trigger_bytes(min_level: u32) -> Vec<(u8, u32)> {
    let mut v = vec![];
    for b in 1..=255u8 {
        let h = refmodel::roll(&[b; 7]).wrapping_add(1) as u64;
        if h != 0 && h % 3 == 0 {
            let lvl = (h / 3).trailing_zeros();
            if lvl >= min_level {
                v.push((b, lvl));
            }
        }
    }
    v
}

pub fn run(ctx: &Ctx) -> Report {
    let mut rep = Report::new("model_checking");
    let thorough = ctx.tier == Tier::Thorough;
    let full_menu: Vec<usize> = vec![0, 1, 2, 3, 4, 5, 6, 7, 8, 9, 15, 16, 17, 63, 64, 65, 100, usize::MAX];
    let small_menu: Vec<usize> = vec![0, 1, 2, 6, 7, 8, 33, 64, usize::MAX];
    let ctb = constant_trigger_bytes(0);
    rep.set("constant_trigger_bytes", json!(ctb.iter().map(|(b, l)| format!("{:02x}@{}", b, l)).collect::<Vec<_>>()));

    // ---- regime 1: full closure
    let mut xs: Vec<(String, Vec<u8>, u64, Vec<usize>, Vec<CForm>)> = vec![];
    let f3 = vec![CForm::Slice, CForm::IterInexact, CForm::Byte];
    let f6 = CFORMS.to_vec();
    xs.push(("hello".into(), b"Hello, World!\n".to_vec(), 0, full_menu.clone(), f6.clone()));
    xs.push(("W1^12 Z W0^3 U".into(), { let mut v = corpus::repeat(&corpus::W[1], 12); v.extend(corpus::Z); v.extend(corpus::repeat(&corpus::W[0], 3)); v.extend(corpus::U); v }, 0, full_menu.clone(), f6.clone()));
    if let Some(&(b, _)) = ctb.first() {
        xs.push((format!("const {:02x} x 230 (a piece on every byte)", b), vec![b; 230], 0, small_menu.clone(), f3.clone()));
    }
    // windows whose rolling hash is exactly 0 (all-zero, and non-zero with a carry) followed by zero bytes and triggers
    xs.push((
        "X0 00 X0 00 00 Z 00 X0 W0 U 00 X0t 00 X0t 00 00 01".into(),
        {
            let x0 = corpus::CORNER_WORDS.iter().find(|w| w.0 == "X0").map(|w| w.1.to_vec()).unwrap_or_default();
            let mut v = x0.clone();
            v.push(0);
            v.extend(&x0);
            v.extend([0, 0]);
            v.extend(corpus::Z);
            v.push(0);
            v.extend(&x0);
            v.extend(corpus::W[0]);
            v.extend(corpus::U);
            v.push(0);
            // the same with the window after which a zero byte ends a piece
            let x0t = corpus::CORNER_WORDS.iter().find(|w| w.0 == "X0t").map(|w| w.1.to_vec()).unwrap_or_default();
            v.extend(&x0t);
            v.push(0);
            v.extend(&x0t);
            v.extend([0, 0, 1]);
            v
        },
        0,
        full_menu.clone(),
        f6.clone(),
    ));
    xs.push((
        "20 KB of trigger words and filler (single calls of 4096 / 8191 / 8192 / 8193 bytes and of everything)".into(),
        {
            let mut v = vec![];
            let mut k = 0usize;
            while v.len() < 20_000 {
                v.extend(corpus::W[k % 7]);
                v.extend(corpus::repeat(&corpus::F, 1 + k % 5));
                k += 1;
            }
            v.truncate(20_000);
            v
        },
        0,
        vec![4096, 8191, 8192, 8193, usize::MAX],
        vec![CForm::Slice, CForm::Iter, CForm::IterInexact, CForm::AddSlice],
    ));
    xs.push(("W3^34 (borders inside trigger windows)".into(), corpus::repeat(&corpus::W[3], if thorough { 70 } else { 34 }), 0, if thorough { full_menu.clone() } else { small_menu.clone() }, f3.clone()));
    // dense head, then a tail without further pieces: the slice form knows the total size up front, the
    // byte forms learn it as bytes arrive (elimination timing differs); level 1 has exactly 31 / 32 pieces
    // when level 0 fills up
    let tiny_menu: Vec<usize> = vec![1, 7, 64, usize::MAX];
    for n1 in [31usize, 32] {
        let mut v = corpus::repeat(&corpus::W[1], n1);
        v.extend(corpus::repeat(&corpus::W[0], 64 - n1 + 2));
        v.extend(corpus::repeat(&corpus::Z, 6));
        xs.push((format!("W1^{} W0^{} Z^6 (level 1 has {} pieces when level 0 fills; zero tail)", n1, 64 - n1 + 2, n1), v, 0, tiny_menu.clone(), vec![CForm::Slice, CForm::Byte]));
    }
    xs.push(("hook(192*2^4-100) + W5^20 (total crosses a size border)".into(), corpus::repeat(&corpus::W[5], 20), (192u64 << 4) - 100, small_menu.clone(), f3.clone()));
    // all levels 0..5 fill up at word 64; the size border of level 4 is crossed between words 65 and 66,
    // so up-front (slice) and per-byte size accounting eliminate level 4 at different moments
    xs.push(("hook(192*2^4-458) + W5^67 (border crossed while levels are full)".into(), corpus::repeat(&corpus::W[5], 67), (192u64 << 4) - 458, vec![1, 7, 8, 64, usize::MAX], vec![CForm::Slice, CForm::Iter, CForm::Byte]));
    if thorough {
        xs.push(("W5^40 F^30 W1^64".into(), { let mut v = corpus::repeat(&corpus::W[5], 40); v.extend(corpus::repeat(&corpus::F, 30)); v.extend(corpus::repeat(&corpus::W[1], 64)); v }, 0, small_menu.clone(), f3.clone()));
        xs.push(("W2^31 W0^40".into(), { let mut v = corpus::repeat(&corpus::W[2], 31); v.extend(corpus::repeat(&corpus::W[0], 40)); v }, 0, full_menu.clone(), f3.clone()));
        let mut lcg = Lcg(ctx.seed ^ 0xc03);
        xs.push(("seeded pseudo-random 2 KiB (supplementary)".into(), lcg.bytes(2048), 0, small_menu.clone(), f3.clone()));
    }
    let mut states = 0u64;
    let mut transitions = 0u64;
    let mut traces = 0u64;
    let mut samples = vec![];
    let mut exhaustive = true;
    let mut spaces = vec![];
    for (name, x, zp, menu, forms) in &xs {
        if ctx.over_budget() {
            exhaustive = false;
            spaces.push(json!({"x": name, "skipped": "wall cap hit"}));
            continue;
        }
        let model = ChunkModel::new(x.clone(), *zp, menu.clone(), forms.clone(), None);
        let counter = model.counter.clone();
        let expected_tab = model.expected.clone();
        let sr = explore::run_stateright(model, 16);
        let tr = counter.load(AO::Relaxed);
        for (pname, path) in &sr.discoveries {
            rep.violation(Violation {
                signature: format!("closure x='{}' calls={:?}", name, path),
                what: run_chunking(x, *zp, path, false).err().unwrap_or_else(|| pname.clone()),
                case: chunk_case(x, *zp, path),
            });
        }
        states += sr.unique;
        transitions += tr;
        // recorded chunkings re-executed from scratch with plain calls (+ clone / finalize in between)
        let mut recorded: Vec<Vec<(usize, CForm)>> = vec![];
        for &k in menu.iter() {
            let k = if k == usize::MAX { x.len() } else { k };
            if k == 0 {
                continue;
            }
            for (fi, &f) in forms.iter().enumerate() {
                if (f == CForm::Byte || f == CForm::AddByte) && k != 1 {
                    continue;
                }
                let mut calls = vec![];
                let mut p = 0;
                let mut t = 0;
                while p < x.len() {
                    let kk = k.min(x.len() - p);
                    // alternate with the next form to mix call forms within one history
                    let ff = if t % 3 == 2 && kk == 1 { forms[(fi + 1) % forms.len()] } else if kk != 1 && (f == CForm::Byte || f == CForm::AddByte) { CForm::Slice } else { f };
                    calls.push((kk, if kk != 1 && (ff == CForm::Byte || ff == CForm::AddByte) { CForm::Slice } else { ff }));
                    p += kk;
                    t += 1;
                }
                recorded.push(calls);
            }
        }
        for calls in &recorded {
            traces += 1;
            if let Err(e) = run_chunking(x, *zp, calls, true) {
                rep.violation(Violation { signature: format!("trace x='{}' first-call={:?}", name, calls.first()), what: e, case: chunk_case(x, *zp, calls) });
            }
        }
        if let Some(c) = recorded.get(1) {
            if samples.len() < 4 {
                samples.push(json!({"x": name, "len": x.len(), "zero_prefix": zp, "calls_prefix": c.iter().take(6).map(|c| json!([c.0, format!("{:?}", c.1)])).collect::<Vec<_>>()}));
            }
        }
        let _ = expected_tab;
        spaces.push(json!({"x": name, "len": x.len(), "zero_prefix": zp, "regime": "closure", "menu": menu.iter().map(|&k| if k == usize::MAX { "rest".to_string() } else { k.to_string() }).collect::<Vec<_>>(),
                           "forms": forms.len(), "states": sr.unique, "transitions": tr, "generated": sr.generated, "max_depth": sr.max_depth, "recorded_chunkings_replayed": recorded.len()}));
    }
    // cross-check explorer on the smallest string (two explorers must agree)
    {
        let (name, x, zp, menu, forms) = &xs[0];
        let b = explore::bfs(&ChunkModel::new(x.clone(), *zp, menu.clone(), forms.clone(), None), 2_000_000, 0);
        let sr = explore::run_stateright(ChunkModel::new(x.clone(), *zp, menu.clone(), forms.clone(), None), 4);
        if b.violation.is_none() && sr.discoveries.is_empty() && b.states != sr.unique {
            eprintln!("mc: explorers disagree on C03 '{}': {} vs {}", name, b.states, sr.unique);
            std::process::exit(5);
        }
        rep.set("crosscheck", json!({"x": name, "bfs_states": b.states, "bfs_transitions": b.transitions, "stateright_unique": sr.unique}));
    }

    // ---- regime 2: deviation-bounded over longer strings
    let max_dev = ctx.tier.pick(2usize, 3);
    let mut long: Vec<(String, Vec<u8>, u64)> = vec![
        ("W3^70 (490 B)".into(), corpus::repeat(&corpus::W[3], 70), 0),
        ("W1^64 Z W0^40".into(), { let mut v = corpus::repeat(&corpus::W[1], 64); v.extend(corpus::Z); v.extend(corpus::repeat(&corpus::W[0], 40)); v }, 0),
    ];
    if thorough {
        long.push(("W5^40 F^30 W1^64 (938 B)".into(), { let mut v = corpus::repeat(&corpus::W[5], 40); v.extend(corpus::repeat(&corpus::F, 30)); v.extend(corpus::repeat(&corpus::W[1], 64)); v }, 0));
        long.push(("hook(192*2^8-300) + W9^66".into(), corpus::repeat(&corpus::W[9], 66), (192u64 << 8) - 300));
    }
    for (name, x, zp) in &long {
        if ctx.over_budget() {
            exhaustive = false;
            spaces.push(json!({"x": name, "skipped": "wall cap hit"}));
            continue;
        }
        let menu = if thorough { full_menu.clone() } else { small_menu.clone() };
        let dforms = if thorough { vec![CForm::Slice, CForm::Iter, CForm::AddByte] } else { vec![CForm::Slice, CForm::Iter] };
        let model = ChunkModel::new(x.clone(), *zp, menu.clone(), dforms, Some(max_dev));
        let counter = model.counter.clone();
        let sr = explore::run_stateright(model, 16);
        let tr = counter.load(AO::Relaxed);
        for (pname, path) in &sr.discoveries {
            rep.violation(Violation {
                signature: format!("deviation-bounded x='{}' calls={:?}", name, path.iter().filter(|c| !(c.0 == 1 && c.1 == CForm::Byte)).collect::<Vec<_>>()),
                what: run_chunking(x, *zp, path, false).err().unwrap_or_else(|| pname.clone()),
                case: chunk_case(x, *zp, path),
            });
        }
        states += sr.unique;
        transitions += tr;
        spaces.push(json!({"x": name, "len": x.len(), "zero_prefix": zp, "regime": format!("<= {} chunked calls among single-byte calls", max_dev), "states": sr.unique, "transitions": tr, "max_depth": sr.max_depth}));
    }

    // ---- reader: every pattern of <= 2 short reads, payloads crossing the 32 KiB buffer
    let mut jobs: Vec<(usize, Vec<(usize, Answer)>)> = vec![];
    let payloads: Vec<Vec<u8>> = vec![crate::c18::payload(100), crate::c18::payload(32769), crate::c18::payload(ctx.tier.pick(70_000, 100_000))];
    for (pi, p) in payloads.iter().enumerate() {
        let reads = p.len() / 32768 + 2;
        for s in crate::c18::scripts(reads.min(5), &[1, 2, 6, 7, 8, 4095, 32767], &[], 2) {
            jobs.push((pi, s));
        }
    }
    let acc = par_shards(jobs.len(), |i, acc| {
        let (pi, s) = &jobs[i];
        acc.evaluations += 1;
        acc.nontrivial += 1;
        if let Err(e) = reader_case(&payloads[*pi], s) {
            let sj: Vec<Value> = s.iter().map(|(i, a)| json!([i, match a { Answer::Short(n) => *n, _ => 0 }])).collect();
            acc.violation(format!("reader len={} script={:?}", payloads[*pi].len(), s), e, json!({"kind":"reader","x":hex(&payloads[*pi]),"script":sj}));
        }
    });
    acc.into_report(&mut rep, "hash_stream_under_short_reads_up_to_2_deviations");

    rep.set("spaces", Value::Array(spaces));
    rep.set("states", states);
    rep.set("transitions", transitions);
    rep.set("traces_validated_against_impl", traces);
    let mut all_samples = samples;
    if let Some(Value::Array(a)) = rep.coverage.get("samples") {
        all_samples.extend(a.iter().cloned());
    }
    rep.set("samples", Value::Array(all_samples));
    rep.set("exhaustive", exhaustive);
    rep.set(
        "rule",
        "per byte string X: BFS over (position, real Generator [complete Debug rendering, 128-bit key], chunked calls used) under 'feed the next k bytes' for k in the chunk menu ({0..9,15,16,17,63,64,65,100,rest} or {0,1,2,6,7,8,33,64,rest}) through update / update_by_iter / += &[u8] / += &[u8;N] / update_by_byte / += u8; closure regime = any number of chunked calls (all call histories of any length over the menu); deviation-bounded regime = single-byte calls with at most d chunked calls; in every state finalize / finalize_without_truncation / finalize_raw::<false,64,32> / input_size / warning equal the reference after X[..p] and finalising leaves the rendering unchanged; recorded chunkings are re-executed from scratch with clones and finalizations in between and compared with the one-call generator and hash_buf; hash_stream under every pattern of <= 2 short reads.",
    );
    rep
}
