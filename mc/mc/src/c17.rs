//! C17 — reused comparison targets carry nothing over from earlier hashes.
//!
//! Explicit-state search: state = the real `FuzzyHashCompareTarget` (or
//! position array), actions = `init_from(h)` for every h of a corpus (given as
//! short, long and dual operands) / `clear`.  If the property holds the space
//! closes at |H|+1 states, which covers initialisation sequences of any length.

use crate::common::*;
use crate::corpus::ramp;
use crate::explore;
use refmodel::text as rt;
use serde_json::{json, Value};
use ssdeep::internal_comparison::{BlockHashPositionArray, BlockHashPositionArrayData, BlockHashPositionArrayImpl};
use ssdeep::{DualFuzzyHash, FuzzyHash, FuzzyHashCompareTarget, LongDualFuzzyHash, LongFuzzyHash};
use stateright::{Model, Property};
use std::hash::{Hash, Hasher};
use std::sync::atomic::{AtomicU64, Ordering as AO};
use std::sync::Arc;

static TRANSITIONS: AtomicU64 = AtomicU64::new(0);
type Content = (u8, Vec<u8>, Vec<u8>);

fn corpus(thorough: bool) -> Vec<Content> {
    let lens: Vec<(usize, usize)> = vec![(0, 0), (1, 0), (0, 1), (7, 7), (8, 3), (0, 8), (8, 0), (20, 32), (64, 64), (63, 1), (33, 33), (5, 64), (64, 5), (64, 0), (0, 64)];
    let mut v: Vec<Content> = vec![];
    for (i, (l1, l2)) in lens.iter().enumerate() {
        for &log in &[0u8, 3, 30] {
            if thorough || true {
                v.push((log, ramp(*l1, i * 3), ramp(*l2, i * 5 + 1)));
            }
        }
    }
    v.push((2, vec![0, 0, 0, 1, 1, 1, 0, 0, 0], vec![63, 63, 63, 0, 63, 63, 63]));
    v.push((2, vec![0], vec![]));
    v.push((2, vec![], vec![0]));
    v.push((2, vec![63; 3], vec![63; 3]));
    v.push((2, ramp(8, 0), ramp(8, 0)));
    v.push((2, ramp(8, 1), ramp(8, 0)));
    v.push((2, ramp(8, 0), ramp(8, 1)));
    v.sort();
    v.dedup();
    v
}

#[derive(Clone, Debug)]
pub struct TS {
    t: FuzzyHashCompareTarget,
    last: Option<usize>,
    key: Arc<String>,
}
impl TS {
    fn new(t: FuzzyHashCompareTarget, last: Option<usize>) -> Self {
        let key = Arc::new(format!("{:?}|{:?}", t, last));
        TS { t, last, key }
    }
}
impl PartialEq for TS {
    fn eq(&self, o: &Self) -> bool {
        self.key == o.key
    }
}
impl Eq for TS {}
impl Hash for TS {
    fn hash<H: Hasher>(&self, h: &mut H) {
        self.key.hash(h)
    }
}

pub struct TargetModel {
    hs: Arc<Vec<Content>>,
    long: Arc<Vec<LongFuzzyHash>>,
}
impl TargetModel {
    fn new(hs: Vec<Content>) -> Self {
        let long = hs.iter().map(|c| LongFuzzyHash::new_from_internals_near_raw(c.0, &c.1, &c.2)).collect();
        TargetModel { hs: Arc::new(hs), long: Arc::new(long) }
    }
}

/// operand form: 0 long, 1 short (if it fits), 2 long dual, 3 short dual, 4..8 `From` impls (fresh object), 9 `clone_from` of a fresh target, 10 `clone()` of one
fn init(t: &mut FuzzyHashCompareTarget, c: &Content, form: usize) -> Result<bool, String> {
    let fits = c.2.len() <= 32;
    match form {
        0 => guarded(|| t.init_from(&LongFuzzyHash::new_from_internals_near_raw(c.0, &c.1, &c.2)))?,
        1 if fits => guarded(|| t.init_from(&FuzzyHash::new_from_internals_near_raw(c.0, &c.1, &c.2)))?,
        2 => guarded(|| t.init_from(&LongDualFuzzyHash::new_from_internals_near_raw(c.0, &c.1, &c.2)))?,
        3 if fits => guarded(|| t.init_from(DualFuzzyHash::new_from_internals_near_raw(c.0, &c.1, &c.2)))?,
        4 => guarded(|| *t = FuzzyHashCompareTarget::from(&LongFuzzyHash::new_from_internals_near_raw(c.0, &c.1, &c.2)))?,
        5 => guarded(|| *t = FuzzyHashCompareTarget::from(LongFuzzyHash::new_from_internals_near_raw(c.0, &c.1, &c.2)))?,
        6 => guarded(|| *t = FuzzyHashCompareTarget::from(LongDualFuzzyHash::new_from_internals_near_raw(c.0, &c.1, &c.2)))?,
        7 if fits => guarded(|| *t = FuzzyHashCompareTarget::from(&DualFuzzyHash::new_from_internals_near_raw(c.0, &c.1, &c.2)))?,
        8 if fits => guarded(|| *t = FuzzyHashCompareTarget::from(FuzzyHash::new_from_internals_near_raw(c.0, &c.1, &c.2)))?,
        // copies of a fresh target: clone_from into the (dirty) target, and clone()
        9 => guarded(|| t.clone_from(&FuzzyHashCompareTarget::from(&LongFuzzyHash::new_from_internals_near_raw(c.0, &c.1, &c.2))))?,
        10 => guarded(|| *t = FuzzyHashCompareTarget::from(&LongFuzzyHash::new_from_internals_near_raw(c.0, &c.1, &c.2)).clone())?,
        _ => return Ok(false),
    }
    Ok(true)
}

fn judge_target(m: &TargetModel, s: &TS) -> Result<(), String> {
    // a panic escaping from the library through any call below is a violation of this case, not a crash
    guard_case(|| judge_target_unguarded(m, s))
}

fn judge_target_unguarded(m: &TargetModel, s: &TS) -> Result<(), String> {
    let i = match s.last {
        None => return Ok(()),
        Some(i) => i,
    };
    let h = &m.long[i];
    let fresh = FuzzyHashCompareTarget::from(h);
    if !guarded(|| s.t.is_valid())? {
        return Err(format!("target is invalid after init_from({})", h));
    }
    if !guarded(|| s.t.full_eq(&fresh))? {
        return Err(format!("target is not full_eq a fresh target built from {}", h));
    }
    if s.t.log_block_size() != h.log_block_size() || s.t.block_size() != h.block_size() {
        return Err("block size accessor".into());
    }
    for (j, o) in m.long.iter().enumerate() {
        let same = m.hs[j] == m.hs[i];
        if guarded(|| s.t.is_equiv(o))? != same {
            return Err(format!("is_equiv({}) = {} on a target built from {}", o, !same, h));
        }
        if guarded(|| s.t.compare(o))? != guarded(|| fresh.compare(o))? {
            return Err(format!("compare({}) differs from the fresh target's", o));
        }
        if guarded(|| s.t.is_comparison_candidate(o))? != guarded(|| fresh.is_comparison_candidate(o))? {
            return Err(format!("is_comparison_candidate({}) differs from the fresh target's", o));
        }
    }
    // the block hash accessors represent exactly the strings
    let c = &m.hs[i];
    if !guarded(|| s.t.block_hash_1().is_equiv(&c.1))? || !guarded(|| s.t.block_hash_2().is_equiv(&c.2))? {
        return Err("block_hash_1()/block_hash_2() accessors do not represent the hash's strings".into());
    }
    if s.t.block_hash_1().len() as usize != c.1.len() || s.t.block_hash_2().len() as usize != c.2.len() {
        return Err("accessor lengths".into());
    }
    Ok(())
}

impl Model for TargetModel {
    type State = TS;
    type Action = (usize, usize);
    fn init_states(&self) -> Vec<TS> {
        vec![TS::new(FuzzyHashCompareTarget::new(), None)]
    }
    fn actions(&self, _s: &TS, a: &mut Vec<(usize, usize)>) {
        for i in 0..self.hs.len() {
            for f in 0..11 {
                a.push((i, f));
            }
        }
    }
    fn next_state(&self, s: &TS, (i, f): (usize, usize)) -> Option<TS> {
        let mut t = s.t.clone();
        match init(&mut t, &self.hs[i], f) {
            Ok(true) => {
                TRANSITIONS.fetch_add(1, AO::Relaxed);
                Some(TS::new(t, Some(i)))
            }
            Ok(false) => None,
            Err(_) => Some(TS::new(FuzzyHashCompareTarget::new(), Some(usize::MAX - 1))),
        }
    }
    fn properties(&self) -> Vec<Property<Self>> {
        vec![Property::always("reinitialised-target-equals-fresh-target", |m, s: &TS| {
            s.last != Some(usize::MAX - 1) && judge_target(m, s).is_ok()
        })]
    }
}

fn run_target_path(hs: &[Content], path: &[(usize, usize)]) -> Result<(), String> {
    let m = TargetModel::new(hs.to_vec());
    let mut t = FuzzyHashCompareTarget::new();
    judge_target(&m, &TS::new(t.clone(), None)).map_err(|e| format!("new target: {}", e))?;
    for (k, &(i, f)) in path.iter().enumerate() {
        if init(&mut t, &hs[i], f).map_err(|p| format!("init_from panicked: {}", p))? {
            judge_target(&m, &TS::new(t.clone(), Some(i))).map_err(|e| format!("after step {} (init_from #{} form {}): {}", k + 1, i, f, e))?;
        }
    }
    Ok(())
}

// ------------------------------------------------------------------ position array

#[derive(Clone, Debug, PartialEq, Eq, Hash)]
pub enum POp {
    Init(usize),
    Clear,
    /// `init_from` with out-of-contract argument #k (refused by a panic, which is caught)
    Refused(usize),
}
/// after a refused initialisation nothing is assumed about which string the array holds
const UNKNOWN: usize = usize::MAX;
fn refused_args() -> Vec<Vec<u8>> {
    vec![vec![64, 1, 2, 3], vec![1, 2, 3, 255], (0..65u8).map(|k| k % 64).collect(), (0..256usize).map(|k| (k % 64) as u8).collect(), vec![7; 320]]
}
#[derive(Clone, Debug)]
pub struct PS {
    ops: Vec<POp>,
    key: Arc<String>,
    last: Option<usize>, // None = cleared / new
}
impl PartialEq for PS {
    fn eq(&self, o: &Self) -> bool {
        self.key == o.key && self.last == o.last
    }
}
impl Eq for PS {}
impl Hash for PS {
    fn hash<H: Hasher>(&self, h: &mut H) {
        self.key.hash(h);
        self.last.hash(h);
    }
}
pub struct PaModel {
    strs: Arc<Vec<Vec<u8>>>,
    max_depth: usize,
}
fn build(strs: &[Vec<u8>], ops: &[POp]) -> Result<BlockHashPositionArray, String> {
    let mut pa = BlockHashPositionArray::new();
    for op in ops {
        match op {
            POp::Init(i) => guarded(|| pa.init_from(&strs[*i]))?,
            POp::Clear => guarded(|| pa.clear())?,
            POp::Refused(k) => {
                let bad = &refused_args()[*k];
                let _ = guarded(|| pa.init_from(bad));
            }
        }
    }
    Ok(pa)
}
fn judge_pa(strs: &[Vec<u8>], s: &PS) -> Result<(), String> {
    // a panic escaping from the library through any call below is a violation of this case, not a crash
    guard_case(|| judge_pa_unguarded(strs, s))
}

fn judge_pa_unguarded(strs: &[Vec<u8>], s: &PS) -> Result<(), String> {
    let pa = build(strs, &s.ops)?;
    if s.last == Some(UNKNOWN) {
        // a refused initialisation: the array must still pass its validity check (and the queries must not panic)
        if !guarded(|| pa.is_valid())? {
            return Err(format!("position array is invalid after a refused init_from ({:?})", s.ops));
        }
        guarded(|| format!("{:?} {} {}", pa, pa.len(), pa.is_empty()))?;
        return Ok(());
    }
    let cur: Vec<u8> = match s.last {
        Some(i) => strs[i].clone(),
        None => vec![],
    };
    let mut fresh = BlockHashPositionArray::new();
    fresh.init_from(&cur);
    if pa != fresh {
        return Err(format!("position array after {:?} differs from a fresh one built from {}", s.ops, hex(&cur)));
    }
    if !guarded(|| pa.is_valid())? {
        return Err("position array is invalid".into());
    }
    if pa.len() as usize != cur.len() || pa.is_empty() != cur.is_empty() {
        return Err("len() / is_empty() disagree with the string".into());
    }
    if guarded(|| pa.is_valid_and_normalized())? != refmodel::is_normalized(&cur) {
        return Err("is_valid_and_normalized() disagrees with the string".into());
    }
    for o in strs.iter() {
        if guarded(|| pa.is_equiv(o))? != (*o == cur) {
            return Err(format!("is_equiv({}) wrong for an array built from {}", hex(o), hex(&cur)));
        }
        if guarded(|| pa.has_common_substring(o))? != refmodel::has_common_7gram(&cur, o) || guarded(|| pa.edit_distance(o))? != refmodel::lcs_distance(&cur, o) {
            return Err(format!("has_common_substring / edit_distance({}) wrong for an array built from {}", hex(o), hex(&cur)));
        }
    }
    Ok(())
}
impl Model for PaModel {
    type State = PS;
    type Action = POp;
    fn init_states(&self) -> Vec<PS> {
        vec![PS { ops: vec![], key: Arc::new(format!("{:?}", BlockHashPositionArray::new())), last: None }]
    }
    fn actions(&self, s: &PS, a: &mut Vec<POp>) {
        if s.ops.len() < self.max_depth {
            for i in 0..self.strs.len() {
                a.push(POp::Init(i));
            }
            a.push(POp::Clear);
            for k in 0..refused_args().len() {
                a.push(POp::Refused(k));
            }
        }
    }
    fn next_state(&self, s: &PS, op: POp) -> Option<PS> {
        TRANSITIONS.fetch_add(1, AO::Relaxed);
        let mut ops = s.ops.clone();
        ops.push(op.clone());
        let key = match build(&self.strs, &ops) {
            Ok(pa) => format!("{:?}", pa),
            Err(e) => format!("PANIC {}", e),
        };
        let last = match op {
            POp::Init(i) => Some(i),
            POp::Clear => None,
            POp::Refused(_) => Some(UNKNOWN),
        };
        Some(PS { ops, key: Arc::new(key), last })
    }
    fn properties(&self) -> Vec<Property<Self>> {
        vec![Property::always("position-array-represents-exactly-its-string", |m, s: &PS| judge_pa(&m.strs, s).is_ok())]
    }
}

fn pa_strings(thorough: bool) -> Vec<Vec<u8>> {
    let mut v: Vec<Vec<u8>> = vec![
        vec![],
        vec![0],
        vec![63],
        ramp(7, 0),
        ramp(8, 0),
        ramp(64, 0),
        ramp(63, 1),
        vec![0; 64],
        vec![0, 0, 0, 0],
        vec![0, 0, 0],
        vec![5, 5, 5, 6, 6, 6, 6],
        ramp(32, 9),
        // a symbol whose FIRST run is short and whose later run is too long, and the mirror
        vec![0, 1, 0, 0, 0, 0],
        vec![7, 7, 7, 7, 3, 7],
        vec![5, 5, 5, 6, 5, 5, 5, 5, 6, 6, 6],
    ];
    if thorough {
        v.extend([vec![63; 64], ramp(33, 3), vec![1, 0, 1, 0, 1, 0, 1, 0], (0..64).map(|k| (k % 2) as u8 * 63).collect()]);
    }
    v
}

// ------------------------------------------------------------------ has_sequences

/// `has_sequences(x, len)`: does the bit vector contain `len` consecutive ones?
fn has_sequences_case(x: u64, len: u32) -> Result<(), String> {
    // a panic escaping from the library through any call below is a violation of this case, not a crash
    guard_case(|| has_sequences_case_unguarded(x, len))
}

fn has_sequences_case_unguarded(x: u64, len: u32) -> Result<(), String> {
    use ssdeep::internal_comparison::block_hash_position_array_element::{has_sequences, has_sequences_const};
    let exp = if len == 0 {
        true
    } else if len > 64 {
        false
    } else {
        let mut run = 0u32;
        let mut best = 0u32;
        for i in 0..64 {
            if (x >> i) & 1 == 1 {
                run += 1;
                best = best.max(run);
            } else {
                run = 0;
            }
        }
        best >= len
    };
    let got = guarded(|| has_sequences(x, len))?;
    if got != exp {
        return Err(format!("has_sequences({:#018x}, {}) = {} expected {}", x, len, got, exp));
    }
    if len == 4 && has_sequences_const::<4>(x) != exp {
        return Err(format!("has_sequences_const::<4>({:#018x}) != {}", x, exp));
    }
    Ok(())
}

// ------------------------------------------------------------------ driver

pub fn replay(c: &Value) -> Result<(), String> {
    match c["kind"].as_str() {
        Some("target") => {
            let hs: Vec<Content> = c["corpus"].as_array().ok_or("corpus")?.iter().filter_map(crate::c02::cparse).collect();
            let path: Vec<(usize, usize)> = c["path"].as_array().ok_or("path")?.iter().map(|p| (p[0].as_u64().unwrap_or(0) as usize, p[1].as_u64().unwrap_or(0) as usize)).collect();
            run_target_path(&hs, &path)
        }
        Some("has_sequences") => has_sequences_case(c["x"].as_u64().ok_or("x")?, c["len"].as_u64().ok_or("len")? as u32),
        Some("pa") => {
            let strs: Vec<Vec<u8>> = c["strings"].as_array().ok_or("strings")?.iter().filter_map(|s| s.as_str().map(unhex)).collect();
            let mut ops = vec![];
            let mut last = None;
            // the initial state is judged as well (a violation may already show on a new array)
            judge_pa(&strs, &PS { ops: vec![], key: Arc::new(String::new()), last: None })?;
            for o in c["ops"].as_array().ok_or("ops")? {
                match o.as_i64() {
                    Some(-1) => {
                        ops.push(POp::Clear);
                        last = None;
                    }
                    Some(k) if k < -1 => {
                        ops.push(POp::Refused((-k - 2) as usize));
                        last = Some(UNKNOWN);
                    }
                    Some(i) => {
                        ops.push(POp::Init(i as usize));
                        last = Some(i as usize);
                    }
                    None => return Err("ops".into()),
                }
                let key = Arc::new(String::new());
                judge_pa(&strs, &PS { ops: ops.clone(), key, last })?;
            }
            Ok(())
        }
        _ => Err("bad case".into()),
    }
}

fn target_case(hs: &[Content], path: &[(usize, usize)]) -> Value {
    // keep only the hashes the path mentions (re-indexed) plus two others
    json!({"kind": "target", "corpus": hs.iter().map(crate::c02::cj).collect::<Vec<_>>(), "path": path.iter().map(|p| json!([p.0, p.1])).collect::<Vec<_>>()})
}
fn pa_case(strs: &[Vec<u8>], ops: &[POp]) -> Value {
    json!({"kind": "pa", "strings": strs.iter().map(|s| hex(s)).collect::<Vec<_>>(),
           "ops": ops.iter().map(|o| match o { POp::Init(i) => *i as i64, POp::Clear => -1, POp::Refused(k) => -2 - *k as i64 }).collect::<Vec<_>>()})
}

pub fn run(ctx: &Ctx) -> Report {
    let mut rep = Report::new("model_checking");
    let thorough = ctx.tier == Tier::Thorough;
    let hs = corpus(thorough);
    let nh = hs.len();
    TRANSITIONS.store(0, AO::Relaxed);
    let sr = explore::run_stateright(TargetModel::new(hs.clone()), 16);
    let t_trans = TRANSITIONS.load(AO::Relaxed);
    for (name, path) in &sr.discoveries {
        rep.violation(Violation {
            signature: format!("target {} path={:?}", name, path),
            what: run_target_path(&hs, path).err().unwrap_or_else(|| name.clone()),
            case: target_case(&hs, path),
        });
    }
    let b = explore::bfs(&TargetModel::new(hs.clone()), 1 << 20, 200);
    let mut traces = 0u64;
    if let Some((name, path)) = &b.violation {
        if sr.discoveries.is_empty() {
            rep.violation(Violation {
                signature: format!("target {} path={:?}", name, path),
                what: run_target_path(&hs, path).err().unwrap_or_else(|| name.clone()),
                case: target_case(&hs, path),
            });
        }
    } else {
        if sr.discoveries.is_empty() && sr.unique != b.states {
            eprintln!("mc: explorers disagree on the C17 target space: {} vs {}", sr.unique, b.states);
            std::process::exit(5);
        }
        for p in &b.sample_paths {
            traces += 1;
            // extend each recorded path by one more re-initialisation to make it a reuse history
            let mut p2 = p.clone();
            p2.push(((p.len() * 7 + 3) % nh, 0));
            if let Err(e) = run_target_path(&hs, &p2) {
                rep.violation(Violation { signature: format!("target trace {:?}", p2), what: e, case: target_case(&hs, &p2) });
            }
        }
    }
    rep.set(
        "target_space",
        json!({"corpus": nh, "operand_forms": 11, "states": b.states, "transitions": b.transitions, "expected_states_if_property_holds": nh + 1,
               "closed": !b.capped, "stateright_unique": sr.unique, "stateright_generated": sr.generated, "stateright_next_state_calls": t_trans, "bfs_depth": b.depth}),
    );
    // position array: depth-bounded over clear / init_from (the array is not Clone; histories are replayed)
    let strs = pa_strings(thorough);
    let depth = ctx.tier.pick(3usize, 4);
    TRANSITIONS.store(0, AO::Relaxed);
    let srp = explore::run_stateright(PaModel { strs: Arc::new(strs.clone()), max_depth: depth }, 16);
    let p_trans = TRANSITIONS.load(AO::Relaxed);
    for (name, ops) in &srp.discoveries {
        let mut acc_ops = vec![];
        let mut last = None;
        let mut what = name.clone();
        for o in ops {
            acc_ops.push(o.clone());
            last = match o {
                POp::Init(i) => Some(*i),
                POp::Clear => None,
                POp::Refused(_) => Some(UNKNOWN),
            };
            if let Err(e) = judge_pa(&strs, &PS { ops: acc_ops.clone(), key: Arc::new(String::new()), last }) {
                what = e;
                break;
            }
        }
        let _ = last;
        rep.violation(Violation { signature: format!("position array {:?}", ops), what, case: pa_case(&strs, ops) });
    }
    let bp = explore::bfs(&PaModel { strs: Arc::new(strs.clone()), max_depth: depth }, 1 << 20, 100);
    if let Some((name, ops)) = &bp.violation {
        if srp.discoveries.is_empty() {
            rep.violation(Violation { signature: format!("position array {:?}", ops), what: name.clone(), case: pa_case(&strs, ops) });
        }
    } else {
        for ops in &bp.sample_paths {
            traces += 1;
            if let Err(e) = replay(&pa_case(&strs, ops)) {
                rep.violation(Violation { signature: format!("position array trace {:?}", ops), what: e, case: pa_case(&strs, ops) });
            }
        }
    }
    rep.set(
        "position_array_space",
        json!({"strings": strs.len(), "depth_bound": depth, "states": bp.states, "transitions": bp.transitions,
               "expected_states_if_property_holds": strs.len() + 1, "stateright_unique": srp.unique, "stateright_next_state_calls": p_trans}),
    );
    // has_sequences: every bit vector made of one or two runs of ones, every length 0..=66
    let acc = par_shards(64, |s1, acc| {
        for l1 in 0..=(64 - s1) {
            let r1: u64 = if l1 == 0 { 0 } else if l1 == 64 { u64::MAX } else { ((1u64 << l1) - 1) << s1 };
            let lo = s1 + l1 + 1;
            let mut seconds: Vec<u64> = vec![0];
            if lo < 64 {
                for s2 in (lo..64).step_by(if thorough { 1 } else { 3 }) {
                    for l2 in 1..=(64 - s2) {
                        seconds.push(if l2 == 64 { u64::MAX } else { ((1u64 << l2) - 1) << s2 });
                    }
                }
            }
            for r2 in seconds {
                let x = r1 | r2;
                for len in 0..=66u32 {
                    acc.evaluations += 1;
                    acc.nontrivial += 1;
                    if let Err(e) = has_sequences_case(x, len) {
                        acc.violation(format!("has_sequences x={:#x} len={}", x, len), e, json!({"kind":"has_sequences","x":x,"len":len}));
                    }
                }
            }
        }
    });
    acc.into_report(&mut rep, "has_sequences_all_one_and_two_run_bit_vectors");
    rep.set("states", b.states + bp.states);
    rep.set("transitions", b.transitions + bp.transitions);
    rep.set("traces_validated_against_impl", traces);
    rep.set("exhaustive", !b.capped);
    rep.set(
        "samples",
        json!([{"kind":"target","path": b.sample_paths.first().map(|p| p.iter().map(|x| json!([rt::format(hs[x.0].0, &hs[x.0].1, &hs[x.0].2), x.1])).collect::<Vec<_>>())},
               {"kind":"pa","ops": bp.sample_paths.first().map(|p| format!("{:?}", p))}]),
    );
    rep.set(
        "rule",
        "comparison target: BFS over the real FuzzyHashCompareTarget under init_from(h) for every h of a corpus of normalized hashes with differing lengths (0, 1, 7, 8, 32, 33, 63, 64 symbols), symbols and block sizes, each given as LongFuzzyHash, FuzzyHash, LongDualFuzzyHash, DualFuzzyHash operands to init_from and through the by-reference and by-value From impls, `clone_from` of a fresh target into the used one and `clone()`; the space closes at |H|+1 states iff nothing is carried over, so initialisation sequences of ANY length are covered; in every state: is_valid, full_eq a fresh target, is_equiv exactly the last hash, compare and is_comparison_candidate against every corpus hash equal the fresh target's, the block hash accessors represent the strings.  position array: all clear / init_from / refused init_from (5 out-of-contract arguments: symbols 64 / 255, 65 / 256 / 320 symbols; the panic is caught; afterwards only validity is demanded until the next successful initialisation) histories to the depth bound over a string corpus (not normalized strings included): equals a fresh array, len, is_valid, is_valid_and_normalized, is_equiv, has_common_substring, edit_distance agree with the string.",
    );
    rep
}
