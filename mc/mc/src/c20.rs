//! C20 — block-size and score arithmetic on the complete finite domains.

use crate::common::*;
use serde_json::{json, Value};
use ssdeep::{block_size, BlockSizeRelation, FuzzyHashCompareTarget, RawFuzzyHash};

fn def_valid(v: u32) -> Option<u8> {
    (0..31u8).find(|&n| v as u64 == (3u64 << n))
}

fn check_block_size_value(v: u32) -> Result<(), String> {
    // a panic escaping from the library through any call below is a violation of this case, not a crash
    guard_case(|| check_block_size_value_unguarded(v))
}

fn check_block_size_value_unguarded(v: u32) -> Result<(), String> {
    let got = guarded(|| block_size::is_valid(v))?;
    if got != def_valid(v).is_some() {
        return Err(format!("is_valid({}) = {}", v, got));
    }
    if let Some(n) = def_valid(v) {
        let l = guarded(|| block_size::log_from_valid(v))?;
        if l != n {
            return Err(format!("log_from_valid({}) = {} != {}", v, l, n));
        }
    }
    Ok(())
}

fn check_log(l: u8) -> Result<(), String> {
    // a panic escaping from the library through any call below is a violation of this case, not a crash
    guard_case(|| check_log_unguarded(l))
}

fn check_log_unguarded(l: u8) -> Result<(), String> {
    let valid = l < 31;
    if guarded(|| block_size::is_log_valid(l))? != valid {
        return Err(format!("is_log_valid({})", l));
    }
    let fl = guarded(|| block_size::from_log(l))?;
    let exp = if valid { Some(3u32 << l) } else { None };
    if fl != exp {
        return Err(format!("from_log({}) = {:?} != {:?}", l, fl, exp));
    }
    if valid {
        let bs = 3u32 << l;
        if guarded(|| block_size::log_from_valid(bs))? != l {
            return Err(format!("log_from_valid(from_log({}))", l));
        }
        // canonical decimal form through a hash object, and back
        let h = guarded(|| RawFuzzyHash::new_from_internals_near_raw(l, &[], &[]))?;
        if h.block_size() != bs || h.log_block_size() != l {
            return Err(format!("object block size for log {}", l));
        }
        let s = guarded(|| h.to_string())?;
        if s != format!("{}::", bs) {
            return Err(format!("decimal form for log {}: {}", l, s));
        }
        let back: RawFuzzyHash = guarded(|| s.parse::<RawFuzzyHash>())?.map_err(|e| format!("reparse {}: {:?}", s, e))?;
        if back.log_block_size() != l || back.block_size() != bs {
            return Err(format!("reparse of {} gives log {}", s, back.log_block_size()));
        }
        // decimal -> logarithm -> decimal is the identity: no other decimal spelling may stand for this block size,
        // in particular none that only equals it modulo 2^32 (or 2^64)
        for k in 1..=5u128 {
            for base in [1u128 << 32, 1u128 << 64] {
                let alias = format!("{}:A:B", bs as u128 + k * base);
                if let Ok(h) = guarded(|| alias.parse::<RawFuzzyHash>())? {
                    return Err(format!("{} parses (as block size {})", alias, h.block_size()));
                }
            }
        }
        for alias in [format!("0{}:A:B", bs), format!("+{}:A:B", bs), format!("{} :A:B", bs), format!("{}.0:A:B", bs)] {
            if let Ok(h) = guarded(|| alias.parse::<RawFuzzyHash>())? {
                return Err(format!("{:?} parses (as block size {})", alias, h.block_size()));
            }
        }
        let h2 = guarded(|| RawFuzzyHash::new_from_internals(bs, &[], &[]))?;
        if h2.log_block_size() != l {
            return Err(format!("new_from_internals({}) log {}", bs, h2.log_block_size()));
        }
    }
    Ok(())
}

fn check_pair(a: u8, b: u8) -> Result<(), String> {
    // a panic escaping from the library through any call below is a violation of this case, not a crash
    guard_case(|| check_pair_unguarded(a, b))
}

fn check_pair_unguarded(a: u8, b: u8) -> Result<(), String> {
    let d = a as i32 - b as i32;
    let exp_rel = match d {
        -1 => BlockSizeRelation::NearLt,
        0 => BlockSizeRelation::NearEq,
        1 => BlockSizeRelation::NearGt,
        _ => BlockSizeRelation::Far,
    };
    let rel = guarded(|| block_size::compare_sizes(a, b))?;
    if rel != exp_rel {
        return Err(format!("compare_sizes({},{}) = {:?}", a, b, rel));
    }
    let near = d.abs() <= 1;
    if rel.is_near() != near {
        return Err(format!("is_near() of {:?}", rel));
    }
    let checks: [(&str, bool, bool); 4] = [
        ("is_near", guarded(|| block_size::is_near(a, b))?, near),
        ("is_near_eq", guarded(|| block_size::is_near_eq(a, b))?, d == 0),
        ("is_near_lt", guarded(|| block_size::is_near_lt(a, b))?, d == -1),
        ("is_near_gt", guarded(|| block_size::is_near_gt(a, b))?, d == 1),
    ];
    for (n, got, exp) in checks {
        if got != exp {
            return Err(format!("{}({},{}) = {}", n, a, b, got));
        }
    }
    if guarded(|| block_size::cmp(a, b))? != a.cmp(&b) {
        return Err(format!("cmp({},{})", a, b));
    }
    // the same through hash objects
    let ha = RawFuzzyHash::new_from_internals_near_raw(a, &[1], &[]);
    let hb = RawFuzzyHash::new_from_internals_near_raw(b, &[2, 3], &[4]);
    if RawFuzzyHash::compare_block_sizes(&ha, &hb) != exp_rel
        || RawFuzzyHash::is_block_sizes_near(&ha, &hb) != near
        || RawFuzzyHash::is_block_sizes_near_eq(&ha, &hb) != (d == 0)
        || RawFuzzyHash::is_block_sizes_near_lt(&ha, &hb) != (d == -1)
        || RawFuzzyHash::is_block_sizes_near_gt(&ha, &hb) != (d == 1)
        || ha.cmp_by_block_size(&hb) != a.cmp(&b)
    {
        return Err(format!("hash-object block size relation ({},{})", a, b));
    }
    Ok(())
}

fn check_raw_score(l1: u8, l2: u8, d: u32) -> Result<u32, String> {
    // a panic escaping from the library through any call below is a violation of this case, not a crash
    guard_case(|| check_raw_score_unguarded(l1, l2, d))
}

fn check_raw_score_unguarded(l1: u8, l2: u8, d: u32) -> Result<u32, String> {
    let s = guarded(|| FuzzyHashCompareTarget::raw_score_by_edit_distance(l1, l2, d))?;
    let exp = 100 - (100 * ((64 * d) / (l1 as u32 + l2 as u32))) / 64;
    if s != exp || !(1..=100).contains(&s) {
        return Err(format!("raw_score_by_edit_distance({},{},{}) = {} (formula {})", l1, l2, d, s, exp));
    }
    Ok(s)
}

fn check_cap(n: u8, l1: u8, l2: u8) -> Result<(), String> {
    // a panic escaping from the library through any call below is a violation of this case, not a crash
    guard_case(|| check_cap_unguarded(n, l1, l2))
}

fn check_cap_unguarded(n: u8, l1: u8, l2: u8) -> Result<(), String> {
    if l1 < 7 || l2 < 7 {
        // documented as semantically invalid: "the result is implementation-defined" (and "may cause a panic in
        // the future"), so nothing is demanded here; the call is still made so that the sanitizer-style builds see it
        let _ = guarded(|| FuzzyHashCompareTarget::score_cap_on_block_hash_comparison(n, l1, l2));
        return Ok(());
    }
    let c = guarded(|| FuzzyHashCompareTarget::score_cap_on_block_hash_comparison(n, l1, l2))?;
    let border = FuzzyHashCompareTarget::LOG_BLOCK_SIZE_CAPPING_BORDER;
    if n < border {
        let exp = (1u32 << n) * (l1.min(l2) as u32);
        if c != exp {
            return Err(format!("score_cap({},{},{}) = {} != {}", n, l1, l2, c, exp));
        }
    } else if c < 100 {
        return Err(format!("score_cap({},{},{}) = {} < 100 at or above the border", n, l1, l2, c));
    }
    // the border itself: the smallest n for which 2^n * 7 >= 100
    if border != 4 {
        return Err(format!("capping border {}", border));
    }
    Ok(())
}

pub fn replay(c: &Value) -> Result<(), String> {
    let g = |k: &str| c[k].as_u64().ok_or_else(|| format!("missing {}", k));
    match c["kind"].as_str() {
        Some("block_size") => check_block_size_value(g("v")? as u32),
        Some("log") => check_log(g("l")? as u8),
        Some("pair") => check_pair(g("a")? as u8, g("b")? as u8),
        Some("raw_score") => check_raw_score(g("l1")? as u8, g("l2")? as u8, g("d")? as u32).map(|_| ()),
        Some("cap") => check_cap(g("n")? as u8, g("l1")? as u8, g("l2")? as u8),
        _ => Err("bad case".into()),
    }
}

pub fn run(_ctx: &Ctx) -> Report {
    let mut rep = Report::new("model_checking");
    // all 2^32 block size values
    let acc = par_shards(1 << 12, |hi, acc| {
        let mut valid = 0u64;
        for lo in 0..(1u32 << 20) {
            let v = ((hi as u32) << 20) | lo;
            // fast path: call the library; the definition decides
            let got = block_size::is_valid(v);
            let exp = def_valid(v).is_some();
            if got != exp || exp {
                if exp {
                    valid += 1;
                }
                if let Err(e) = check_block_size_value(v) {
                    acc.violation(format!("block_size v={}", v), e, json!({"kind":"block_size","v":v}));
                }
            }
        }
        acc.evaluations += 1 << 20;
        acc.nontrivial += 1 << 20;
        acc.count("valid_values_found", valid);
        if hi == 0 {
            acc.sample(json!({"kind":"block_size","v":3}));
        }
    });
    let valid_found = acc.counters.get("valid_values_found").copied().unwrap_or(0);
    acc.into_report(&mut rep, "is_valid_all_u32");
    if valid_found != 31 && rep.violation_count == 0 {
        rep.violation(Violation {
            signature: "block_size count".into(),
            what: format!("{} valid block sizes found, expected 31", valid_found),
            case: json!({"kind":"block_size","v":0}),
        });
    }
    // all 256 logs
    let acc = par_shards(256, |l, acc| {
        acc.evaluations += 1;
        acc.nontrivial += 1;
        if let Err(e) = check_log(l as u8) {
            acc.violation(format!("log l={}", l), e, json!({"kind":"log","l":l}));
        }
        acc.bump(if l < 31 { "valid" } else { "invalid" });
        if l == 30 {
            acc.sample(json!({"kind":"log","l":30}));
        }
    });
    acc.into_report(&mut rep, "all_u8_logs");
    // all 31 x 31 pairs
    let acc = par_shards(31 * 31, |i, acc| {
        let (a, b) = ((i / 31) as u8, (i % 31) as u8);
        acc.evaluations += 1;
        acc.nontrivial += 1;
        if let Err(e) = check_pair(a, b) {
            acc.violation(format!("pair a={} b={}", a, b), e, json!({"kind":"pair","a":a,"b":b}));
        }
        acc.bump(&format!("{:?}", block_size::compare_sizes(a, b)));
    });
    acc.into_report(&mut rep, "all_log_pairs");
    // all (l1, l2, d)
    let acc = par_shards(58 * 58, |i, acc| {
        let (l1, l2) = (7 + (i / 58) as u8, 7 + (i % 58) as u8);
        for d in 0..=(l1 as u32 + l2 as u32 - 14) {
            acc.evaluations += 1;
            acc.nontrivial += 1;
            match check_raw_score(l1, l2, d) {
                Ok(s) => acc.bump(&format!("score={}", s / 10 * 10)),
                Err(e) => acc.violation(
                    format!("raw_score l1={} l2={} d={}", l1, l2, d),
                    e,
                    json!({"kind":"raw_score","l1":l1,"l2":l2,"d":d}),
                ),
            }
        }
        if i == 0 {
            acc.sample(json!({"kind":"raw_score","l1":7,"l2":7,"d":0}));
        }
    });
    acc.into_report(&mut rep, "raw_score_all_l1_l2_d");
    // all (n, l1, l2)
    let acc = par_shards(32, |n, acc| {
        for l1 in 0..=64u8 {
            for l2 in 0..=64u8 {
                acc.evaluations += 1;
                if l1 >= 7 && l2 >= 7 {
                    acc.nontrivial += 1;
                }
                if let Err(e) = check_cap(n as u8, l1, l2) {
                    acc.violation(
                        format!("cap n={} l1={} l2={}", n, l1, l2),
                        e,
                        json!({"kind":"cap","n":n,"l1":l1,"l2":l2}),
                    );
                }
            }
        }
        acc.bump(if n < 4 { "below_border" } else { "at_or_above_border" });
    });
    acc.into_report(&mut rep, "score_cap_all_n_l1_l2");
    rep.set("exhaustive", true);
    rep.set(
        "rule",
        "complete finite domains enumerated once each: all 2^32 u32 block sizes, all 256 u8 logs, all 31x31 log pairs, all (l1,l2,d) with 7<=l<=64 and d<=l1+l2-14, all (n,l1,l2) in 0..=31 x 0..=64 x 0..=64 (the cap formula is demanded for l1,l2 >= 7 only: below 7 the documentation declares the result implementation-defined, those calls are made but nothing is compared); every case is distinct by construction; non-trivial = it calls the library and compares with the definition",
    );
    rep
}
