//! C08 — block-hash edit distance is the exact insert/delete (LCS) distance.

use crate::common::*;
use crate::corpus::all_strings;
use serde_json::{json, Value};
use ssdeep::internal_comparison::{BlockHashPositionArray, BlockHashPositionArrayImpl};
use ssdeep::{FuzzyHashCompareTarget, LongFuzzyHash};

fn pa_of(a: &[u8]) -> Result<BlockHashPositionArray, String> {
    let mut pa = BlockHashPositionArray::new();
    guarded(|| pa.init_from(a))?;
    Ok(pa)
}

/// One ordered pair through every route.
pub fn check_pair(a: &[u8], b: &[u8]) -> Result<u32, String> {
    // a panic escaping from the library through any call below is a violation of this case, not a crash
    guard_case(|| check_pair_unguarded(a, b))
}

fn check_pair_unguarded(a: &[u8], b: &[u8]) -> Result<u32, String> {
    let exp = refmodel::lcs_distance(a, b);
    let pa = pa_of(a)?;
    let d = guarded(|| pa.edit_distance(b))?;
    if d != exp {
        return Err(format!("edit_distance = {} but len(a)+len(b)-2*LCS = {}", d, exp));
    }
    // through a comparison target (block hash 1 and 2 of a long normalized hash), when `a` is normalized
    if refmodel::is_normalized(a) {
        let h1 = guarded(|| LongFuzzyHash::new_from_internals_near_raw(0, a, &[]))?;
        let t1 = FuzzyHashCompareTarget::from(&h1);
        let d1 = guarded(|| t1.block_hash_1().edit_distance(b))?;
        let h2 = guarded(|| LongFuzzyHash::new_from_internals_near_raw(0, &[], a))?;
        let t2 = FuzzyHashCompareTarget::from(&h2);
        let d2 = guarded(|| t2.block_hash_2().edit_distance(b))?;
        if d1 != exp || d2 != exp {
            return Err(format!("edit_distance through a comparison target = {} / {} expected {}", d1, d2, exp));
        }
    }
    Ok(d)
}

fn check_against_row(pa: &BlockHashPositionArray, a: &[u8], b: &[u8]) -> Result<u32, String> {
    // a panic escaping from the library through any call below is a violation of this case, not a crash
    guard_case(|| check_against_row_unguarded(pa, a, b))
}

fn check_against_row_unguarded(pa: &BlockHashPositionArray, a: &[u8], b: &[u8]) -> Result<u32, String> {
    let exp = refmodel::lcs_distance(a, b);
    let d = guarded(|| pa.edit_distance(b))?;
    if d != exp {
        return Err(format!("edit_distance = {} but len(a)+len(b)-2*LCS = {}", d, exp));
    }
    Ok(d)
}

pub fn replay(c: &Value) -> Result<(), String> {
    let a = unhex(c["a"].as_str().ok_or("a")?);
    let b = unhex(c["b"].as_str().ok_or("b")?);
    if let Some(prev) = c["reuse_prev"].as_str() {
        let prev = unhex(prev);
        let mode = c["reuse_mode"].as_u64().unwrap_or(2);
        let mut pa = BlockHashPositionArray::new();
        guarded(|| {
            pa.init_from(&prev);
            match mode {
                0 => pa.init_from(&[]),
                1 => pa.clear(),
                _ => {}
            }
            pa.init_from(&a);
        })?;
        if pa != pa_of(&a)? {
            return Err("re-used position array differs from a fresh one".into());
        }
        let d = guarded(|| pa.edit_distance(&b))?;
        if d != refmodel::lcs_distance(&a, &b) {
            return Err(format!("edit_distance on a re-used position array = {} expected {}", d, refmodel::lcs_distance(&a, &b)));
        }
    }
    check_pair(&a, &b)?;
    check_pair(&b, &a)?;
    Ok(())
}

fn case(a: &[u8], b: &[u8]) -> Value {
    json!({"a": hex(a), "b": hex(b)})
}

/// X^i Y^j for all i + j in `totals`
fn two_run(x: u8, y: u8, totals: &[usize]) -> Vec<Vec<u8>> {
    let mut v = vec![];
    for &t in totals {
        for i in 0..=t {
            let mut s = vec![x; i];
            s.extend(vec![y; t - i]);
            v.push(s);
        }
    }
    v.sort();
    v.dedup();
    v
}

fn all_pairs_section(rep: &mut Report, name: &str, left: &[Vec<u8>], right: &[Vec<u8>], via_target_stride: usize) {
    let acc = par_shards(left.len(), |i, acc| {
        let a = &left[i];
        // the position array is a *re-used* object: it held another string of the family before, and
        // every third one was emptied (init_from(&[]) / clear()) in between
        let pa = {
            let prev = &left[(i * 7 + 3) % left.len()];
            let mut pa = BlockHashPositionArray::new();
            let r = guarded(|| {
                pa.init_from(prev);
                match i % 3 {
                    0 => pa.init_from(&[]),
                    1 => pa.clear(),
                    _ => {}
                }
                pa.init_from(a);
            });
            match r {
                Ok(()) => pa,
                Err(e) => {
                    acc.violation(format!("init_from a={}", hex(a)), e, case(a, &[]));
                    return;
                }
            }
        };
        if i % 5 == 0 {
            // the re-used object must equal a fresh one
            match pa_of(a) {
                Ok(fresh) if fresh == pa => {}
                _ => {
                    acc.violation(format!("re-used position array differs from a fresh one a={}", hex(a)), "re-used position array differs from a fresh one".into(), json!({"a": hex(a), "b": "", "reuse_prev": hex(&left[(i * 7 + 3) % left.len()]), "reuse_mode": i % 3}));
                    return;
                }
            }
        }
        for (j, b) in right.iter().enumerate() {
            acc.evaluations += 1;
            if !a.is_empty() && !b.is_empty() {
                acc.nontrivial += 1;
            }
            let r = if via_target_stride > 0 && (i + j) % via_target_stride == 0 { check_pair(a, b) } else { check_against_row(&pa, a, b) };
            match r {
                Ok(d) => {
                    acc.max("max_distance", d as u64);
                    if d == 0 {
                        acc.count("distance_zero", 1);
                    }
                }
                Err(e) => acc.violation(
                    format!("a={} b={}", hex(a), hex(b)),
                    e,
                    json!({"a": hex(a), "b": hex(b), "reuse_prev": hex(&left[(i * 7 + 3) % left.len()]), "reuse_mode": i % 3}),
                ),
            }
        }
        if i == left.len() / 2 {
            acc.sample(case(a, &right[right.len() / 3]));
        }
    });
    acc.into_report(rep, name);
}


/// A3 — closure.  For a fixed `a` the kernel is an automaton over the symbols of `b` whose whole state is the
/// bit vector `v`: bit i of `v` is clear exactly when LCS(a[..i+1], b) = LCS(a[..i], b) + 1, and because carries
/// and borrows only travel upwards, the low i bits of `v` are the state of the same kernel run on the prefix
/// a[..i].  So the kernel's state after `b` is observable without a hook: it is the vector of the real
/// `edit_distance(a[..i], b)` for i = 0..=|a|.  Layer-synchronous explicit-state search over ALL b in
/// sigma^(<= max_len): state = that vector (at a depth), one representative `b` per state is kept and extended
/// by every symbol; every transition recomputes the real distances of all prefixes from scratch and compares
/// each with the reference DP row.  Two `b` with the same vector drive the kernel into the same `v`, so they
/// have the same futures and one representative suffices.
fn closure(a: &[u8], sigma: &[u8], max_len: usize, layer_cap: usize, acc: &mut Acc) {
    use std::collections::HashSet;
    let n = a.len();
    let mut pas: Vec<BlockHashPositionArray> = vec![];
    for i in 0..=n {
        match pa_of(&a[..i]) {
            Ok(p) => pas.push(p),
            Err(e) => {
                acc.violation(format!("init_from a={}", hex(&a[..i])), e, case(&a[..i], &[]));
                return;
            }
        }
    }
    let mut layer: Vec<(Vec<u8>, Vec<u8>)> = vec![(vec![], vec![0u8; n + 1])];
    let mut all_rows: HashSet<Vec<u8>> = HashSet::new();
    let mut states = 1u64;
    let mut capped = false;
    for _depth in 1..=max_len {
        let mut seen: HashSet<Vec<u8>> = HashSet::new();
        let mut next: Vec<(Vec<u8>, Vec<u8>)> = vec![];
        for (b, row) in &layer {
            'sym: for &c in sigma {
                let mut b2 = b.clone();
                b2.push(c);
                let mut new = vec![0u8; n + 1];
                for j in 1..=n {
                    new[j] = if a[j - 1] == c { row[j - 1] + 1 } else { row[j].max(new[j - 1]) };
                }
                acc.count("transitions", 1);
                // the real kernel on every prefix of a (the last one is a itself)
                for i in (0..=n).rev() {
                    acc.evaluations += 1;
                    acc.nontrivial += 1;
                    let exp = (i + b2.len()) as u32 - 2 * new[i] as u32;
                    match guarded(|| pas[i].edit_distance(&b2)) {
                        Ok(d) if d == exp => {
                            if i == n {
                                acc.max("max_distance", d as u64);
                            }
                        }
                        Ok(d) => {
                            acc.violation(format!("closure a={} b={}", hex(&a[..i]), hex(&b2)), format!("edit_distance = {} but len(a)+len(b)-2*LCS = {}", d, exp), case(&a[..i], &b2));
                            continue 'sym;
                        }
                        Err(e) => {
                            acc.violation(format!("closure a={} b={}", hex(&a[..i]), hex(&b2)), e, case(&a[..i], &b2));
                            continue 'sym;
                        }
                    }
                }
                if seen.insert(new.clone()) {
                    all_rows.insert(new.clone());
                    next.push((b2, new));
                }
            }
        }
        if next.len() > layer_cap {
            capped = true;
            next.truncate(layer_cap);
        }
        states += next.len() as u64;
        acc.max("max_layer_width", next.len() as u64);
        layer = next;
        if layer.is_empty() {
            break;
        }
    }
    if std::env::var("MC_LOUD").is_ok() {
        eprintln!("closure |a|={} a={}.. sigma={} states={} vectors={} capped={}", n, hex(&a[..n.min(8)]), hex(sigma), states, all_rows.len(), capped);
    }
    acc.count("states(kernel_vector,depth)", states);
    acc.count("distinct_kernel_vectors", all_rows.len() as u64);
    acc.count("closures_explored", 1);
    if capped {
        acc.count("closures_capped", 1);
    }
    if let Some((b, _)) = layer.last() {
        acc.sample(json!({"closure_of_a": hex(a), "sigma": hex(sigma), "a_deepest_b": hex(b), "states": states}));
    }
}

fn closure_subjects(thorough: bool) -> Vec<(Vec<u8>, Vec<u8>)> {
    let rep = |pat: &[u8], len: usize| -> Vec<u8> { (0..len).map(|k| pat[k % pat.len()]).collect() };
    let mut v: Vec<(Vec<u8>, Vec<u8>)> = vec![];
    // (a, sigma): sigma = the symbols of a (or a few of them) plus, in most cases, one symbol that is not in a.
    // Measured closure sizes (states = distinct kernel vectors per depth, summed over depths 0..=64) in comments.
    v.push((vec![], vec![0, 63])); // 65
    v.push((rep(&[0, 63], 7), vec![0, 63, 5])); // 1 230
    v.push(((0..64u8).collect(), vec![0, 31, 63])); // 444
    v.push(((0..64u8).rev().collect(), vec![0, 1, 63])); // 444
    v.push((rep(&[0, 63], 63), vec![0, 63])); // 2 144
    v.push((vec![9; 64], vec![9, 5])); // 2 145
    v.push((rep(&[0, 7, 21, 42, 63], 64), vec![0, 7, 63])); // 22 906
    v.push((rep(&[0, 63], 64), vec![0, 63, 5])); // 35 937
    if thorough {
        let mut lcg = Lcg(0xC08);
        let mut bin = |len: usize| -> Vec<u8> { (0..len).map(|_| if lcg.next() & 1 == 0 { 0 } else { 63 }).collect() };
        v.push((bin(24), vec![0, 63])); // 244 100
        v.push((bin(24), vec![0, 63, 5])); // 981 071
        v.push(((0..64).map(|k| if (k / 2) % 2 == 0 { 0 } else { 63 }).collect(), vec![0, 63])); // 106 742
        v.push((rep(&[0, 63, 63], 63), vec![0, 63, 5])); // 279 113
        v.push((rep(&[0, 0, 63], 64), vec![0, 63, 5])); // 278 687
        v.push((rep(&[0, 7, 7, 63], 64), vec![0, 7, 63])); // 440 640
        v.push((rep(&[0, 7, 63], 64), vec![0, 7, 63, 5])); // 367 356
        v.push((rep(&[0, 7, 21, 63], 64), vec![0, 7, 21, 63])); // 527 969
        v.push((rep(&[0, 0, 0, 63], 64), vec![0, 63, 5])); // 869 822
        v.push(((0..64).map(|k| if (k / 3) % 2 == 0 { 0 } else { 63 }).collect(), vec![0, 63])); // 2 745 746
    }
    v
}

pub fn run(ctx: &Ctx) -> Report {
    let mut rep = Report::new("model_checking");
    let thorough = ctx.tier == Tier::Thorough;
    // A1: all pairs over small alphabets
    let (l2, l3, l4) = if thorough { (12, 9, 6) } else { (11, 8, 5) };
    let s2 = all_strings(&[0, 63], l2);
    all_pairs_section(&mut rep, &format!("A1_all_pairs_alphabet2_len_le_{}", l2), &s2, &s2, 97);
    let s3 = all_strings(&[0, 1, 63], l3);
    all_pairs_section(&mut rep, &format!("A1_all_pairs_alphabet3_len_le_{}", l3), &s3, &s3, 97);
    let s4 = all_strings(&[0, 1, 31, 63], l4);
    all_pairs_section(&mut rep, &format!("A1_all_pairs_alphabet4_len_le_{}", l4), &s4, &s4, 97);
    // A2: structured families at full length
    let totals: Vec<usize> = if thorough {
        (0..=64).collect()
    } else {
        vec![0, 1, 2, 3, 4, 5, 6, 7, 8, 15, 16, 17, 31, 32, 33, 47, 48, 49, 60, 61, 62, 63, 64]
    };
    let xy = two_run(0, 63, &totals);
    let yx = two_run(63, 0, &totals);
    let xz = two_run(0, 5, &totals);
    all_pairs_section(&mut rep, "A2_two_run_XiYj_vs_XiYj", &xy, &xy, 1009);
    all_pairs_section(&mut rep, "A2_two_run_XiYj_vs_YiXj", &xy, &yx, 1009);
    all_pairs_section(&mut rep, "A2_two_run_XiYj_vs_XiZj", &xy, &xz, 1009);
    // periodic strings (period <= 4) x their rotations and prefixes
    let mut periodic: Vec<Vec<u8>> = vec![];
    for p in 1..=4usize {
        for pat in all_strings(&[0, 7, 63], p).into_iter().filter(|s| s.len() == p) {
            for &len in &[7usize, 32, 33, 63, 64] {
                for rot in 0..p {
                    let s: Vec<u8> = (0..len).map(|k| pat[(k + rot) % p]).collect();
                    periodic.push(s);
                }
            }
        }
    }
    periodic.sort();
    periodic.dedup();
    let per_right: Vec<Vec<u8>> = if thorough { periodic.clone() } else { periodic.iter().step_by(5).cloned().collect() };
    all_pairs_section(&mut rep, "A2_periodic_vs_rotations_and_prefixes", &periodic, &per_right, 1009);
    // ramp 0..63 against every shifted / truncated copy; single-position differences at length 63 / 64
    let ramp: Vec<u8> = (0..64u8).collect();
    let mut shifted: Vec<Vec<u8>> = vec![];
    for start in 0..64usize {
        for end in start..=64usize {
            shifted.push(ramp[start..end].to_vec());
        }
    }
    for s in 1..64usize {
        let mut r = ramp.clone();
        r.rotate_left(s);
        shifted.push(r);
    }
    for len in [63usize, 64] {
        for pos in 0..len {
            for sym in [0u8, 63, ((pos + 1) % 64) as u8] {
                let mut r = ramp[..len].to_vec();
                r[pos] = sym;
                shifted.push(r);
            }
        }
    }
    shifted.sort();
    shifted.dedup();
    let bases: Vec<Vec<u8>> = vec![ramp.clone(), ramp[..63].to_vec(), ramp.iter().rev().copied().collect(), vec![9; 64], ramp[1..].to_vec()];
    all_pairs_section(&mut rep, "A2_ramp_vs_shifted_truncated_single_edits", &bases, &shifted, 13);
    all_pairs_section(&mut rep, "A2_shifted_truncated_vs_ramp(argument_order_swapped)", &shifted, &bases, 13);
    // A3: closure of the kernel automaton for fixed a, all b over sigma up to the capacity
    let subjects = closure_subjects(thorough);
    let layer_cap = 400_000usize;
    let acc = par_shards(subjects.len(), |i, acc| {
        let (a, sigma) = &subjects[i];
        closure(a, sigma, 64, layer_cap, acc);
    });
    let capped = acc.counters.get("closures_capped").copied().unwrap_or(0);
    rep.set("states", acc.counters.get("states(kernel_vector,depth)").copied().unwrap_or(0));
    rep.set("transitions", acc.counters.get("transitions").copied().unwrap_or(0));
    acc.into_report(&mut rep, "A3_closure_of_the_kernel_automaton_all_b_up_to_64_symbols");
    rep.set("closures_capped(layer wider than the cap: only the first cap states of that layer were extended)", capped);
    rep.set("exhaustive", true);
    rep.set(
        "rule",
        "A3: for each of a list of fixed strings a (periodic, two-block, ramp, constant, pseudo-random binary) and a small alphabet sigma (symbols of a plus a foreign one), explicit-state search over ALL b in sigma^(<=64): state = (the kernel's state, observed without a hook as the vector of the real edit_distance(a[..i], b) over all prefixes of a, which determines the kernel's bit vector; depth), one representative b per state, every transition = the real edit_distance(a[..i], b+c) for every i recomputed from scratch and compared with the reference DP row; states and distinct kernel vectors are reported.  A1: ALL ordered pairs of strings over alphabets of size 2 / 3 / 4 up to the tier's length bound; A2: structured families at the real capacity: two-run strings X^iY^j (carry chains of every length through bit 63) against the same family with equal, swapped and different symbols, periodic strings (period <= 4) against rotations and prefixes, the ramp 0..63 against every substring, rotation and single-symbol edit at length 63 / 64, both argument orders; every pair compared with a textbook DP; a strided subset also through FuzzyHashCompareTarget::block_hash_1()/2(); the position array used for each left string is a re-used object (it held another string before; every third one was emptied with init_from(&[]) / clear() in between) and a fifth of them are compared with a fresh one.  Pairs are distinct within a section; non-trivial = both strings non-empty.",
    );
    rep.assume("beyond the enumerated families (alphabet > 4 with length > the bound, unstructured long strings) nothing is claimed");
    rep
}
