//! Helpers around the real `ssdeep::Generator`: update forms, comparison of
//! every observable output with the declarative reference.

use crate::common::guarded;
use refmodel::ctph::{Ctph, CtphError};
use ssdeep::{Generator, GeneratorError};

/// The update forms of the generator.
#[derive(Clone, Copy, Debug, PartialEq, Eq, Hash)]
pub enum Form {
    Slice,
    Iter,
    Byte,
    AddSlice,
    AddByte,
    /// update_by_iter with an iterator whose size hint is inexact (lower bound 0, upper bound twice the real length)
    IterInexact,
    /// `+= &[u8; N]` only: the data is cut greedily into arrays of 21, 14, 7 and 1 bytes
    AddArray,
    /// update_by_iter with `&mut` of an iterator that is NOT fused: it yields the data, then `None`, then junk;
    /// the sequence ends at the first `None` and the junk must still be in the iterator afterwards
    IterNotFused,
}
pub const FORMS: [Form; 8] = [Form::Slice, Form::Iter, Form::Byte, Form::AddSlice, Form::AddByte, Form::IterInexact, Form::AddArray, Form::IterNotFused];

/// An iterator that is not fused: `data`, then one `None`, then 37 junk bytes, then `None` for good.
pub struct NotFused<'a> {
    pub data: &'a [u8],
    pub pos: usize,
    pub ended_once: bool,
    pub polled_after_end: u32,
}
impl<'a> NotFused<'a> {
    pub fn new(data: &'a [u8]) -> Self {
        NotFused { data, pos: 0, ended_once: false, polled_after_end: 0 }
    }
}
impl Iterator for NotFused<'_> {
    type Item = u8;
    fn next(&mut self) -> Option<u8> {
        if self.pos < self.data.len() {
            self.pos += 1;
            Some(self.data[self.pos - 1])
        } else if !self.ended_once {
            self.ended_once = true;
            None
        } else {
            self.polled_after_end += 1;
            if self.polled_after_end <= 37 {
                Some(0xA5 ^ (self.polled_after_end as u8))
            } else {
                None
            }
        }
    }
}
pub const FORMS3: [Form; 3] = [Form::Slice, Form::Iter, Form::Byte];
pub const FORMS4: [Form; 4] = [Form::Slice, Form::Iter, Form::Byte, Form::IterInexact];

pub fn feed(g: &mut Generator, data: &[u8], form: Form) {
    match form {
        Form::Slice => {
            g.update(data);
        }
        Form::Iter => {
            g.update_by_iter(data.iter().copied());
        }
        Form::Byte => {
            for &c in data {
                g.update_by_byte(c);
            }
        }
        Form::AddSlice => {
            *g += data;
        }
        Form::AddByte => {
            for &c in data {
                *g += c;
            }
        }
        Form::IterInexact => {
            let doubled: Vec<(bool, u8)> = data.iter().flat_map(|&b| [(true, b), (false, !b)]).collect();
            g.update_by_iter(doubled.iter().filter(|x| x.0).map(|x| x.1));
        }
        Form::AddArray => {
            // every byte goes through `+= &[u8; N]`: greedily 21-, 14-, 7-byte arrays, then single-byte arrays
            let mut rest = data;
            while !rest.is_empty() {
                macro_rules! take {
                    ($n:expr) => {{
                        let a: [u8; $n] = rest[..$n].try_into().unwrap();
                        *g += &a;
                        rest = &rest[$n..];
                    }};
                }
                if rest.len() >= 21 {
                    take!(21)
                } else if rest.len() >= 14 {
                    take!(14)
                } else if rest.len() >= 7 {
                    take!(7)
                } else {
                    take!(1)
                }
            }
        }
        Form::IterNotFused => {
            let mut it = NotFused::new(data);
            g.update_by_iter(&mut it);
        }
    }
}

/// Observable outputs of a generator, rendered as strings.
#[derive(Clone, Debug, PartialEq, Eq, Hash)]
pub struct Obs {
    pub size: u64,
    pub fin: String,
    pub fin_long: String,
    pub fin_raw_short_notrunc: String,
    pub warn: bool,
    /// every object returned by a finalization passes its validity check (library's and the reference predicate)
    pub results_valid: bool,
}

fn gerr(e: GeneratorError) -> String {
    format!("Err({:?})", e)
}

pub fn observe(g: &Generator) -> Result<Obs, String> {
    use crate::hashobj::Plain;
    guarded(|| {
        let a = g.finalize();
        let b = g.finalize_without_truncation();
        let c = g.finalize_raw::<false, 64, 32>();
        let d = g.finalize_raw::<true, 64, 64>();
        let results_valid = a.as_ref().map(|h| h.is_valid() && h.ref_valid()).unwrap_or(true)
            && b.as_ref().map(|h| h.is_valid() && h.ref_valid()).unwrap_or(true)
            && c.as_ref().map(|h| h.is_valid() && h.ref_valid()).unwrap_or(true)
            && d.as_ref().map(|h| h.is_valid() && h.ref_valid()).unwrap_or(true)
            // the truncated form in a long object is the same hash
            && match (&a, &d) {
                (Ok(x), Ok(y)) => x.to_string() == y.to_string(),
                (Err(x), Err(y)) => x == y,
                _ => false,
            };
        Obs {
            size: g.input_size(),
            fin: a.map(|h| h.to_string()).unwrap_or_else(gerr),
            fin_long: b.map(|h| h.to_string()).unwrap_or_else(gerr),
            fin_raw_short_notrunc: c.map(|h| h.to_string()).unwrap_or_else(gerr),
            warn: g.may_warn_about_small_input_size(),
            results_valid,
        }
    })
}

/// What the reference says the observables must be (no hint declared).
pub fn expected(r: &Ctph) -> Obs {
    let size = r.size();
    match r.digest() {
        Err(CtphError::TooLarge) => Obs {
            size,
            fin: "Err(InputSizeTooLarge)".into(),
            fin_long: "Err(InputSizeTooLarge)".into(),
            fin_raw_short_notrunc: "Err(InputSizeTooLarge)".into(),
            warn: size < 4097,
            results_valid: true,
        },
        Ok(d) => Obs {
            size,
            fin: d.text_trunc(),
            fin_long: d.text_long(),
            fin_raw_short_notrunc: if d.bh2_long.len() <= 32 {
                d.text_long()
            } else {
                "Err(OutputOverflow)".into()
            },
            warn: size < 4097,
            results_valid: true,
        },
    }
}

/// Compare the real generator with the reference; `None` when they agree.
pub fn mismatch(g: &Generator, r: &Ctph) -> Option<String> {
    let exp = expected(r);
    match observe(g) {
        Err(p) => Some(format!("panic in finalize: {}", p)),
        Ok(obs) => {
            if obs == exp {
                None
            } else {
                Some(format!("expected {:?} observed {:?}", exp, obs))
            }
        }
    }
}

/// Read a `usize` field off the generator's `Debug` rendering (vacuity
/// counters only; never an oracle).
pub fn debug_field(g: &Generator, name: &str) -> Option<u64> {
    let d = format!("{:?}", g);
    let key = format!("{}: ", name);
    let p = d.find(&key)?;
    let rest = &d[p + key.len()..];
    let end = rest.find(|c: char| !c.is_ascii_digit()).unwrap_or(rest.len());
    rest[..end].parse().ok()
}
pub fn debug_flag(g: &Generator, name: &str) -> Option<bool> {
    let d = format!("{:?}", g);
    let key = format!("{}: ", name);
    let p = d.find(&key)?;
    Some(d[p + key.len()..].starts_with("true"))
}
