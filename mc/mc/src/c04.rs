//! C04 — parsing is total and accepts exactly the fuzzy-hash grammar.
//!
//! E-ENUM with deviations 0 / 1 / 2: grammar-derived texts (deviation 0), every
//! single-byte insert / delete / replace of seed texts (1), pairs of edits (2,
//! thorough).  Oracle: a plain left-to-right scanner (refmodel::text::parse).

use crate::common::*;
use crate::corpus::ramp;
use crate::hashobj::*;
use refmodel::text::{self as rt, Kind, Origin, Rule};
use serde_json::{json, Value};
use ssdeep::{
    DualFuzzyHash, FuzzyHash, LongDualFuzzyHash, LongFuzzyHash, LongRawFuzzyHash, ParseError, ParseErrorInfo,
    ParseErrorKind, ParseErrorOrigin, RawFuzzyHash,
};

pub const STRICT: bool = cfg!(feature = "strict-parser");

fn origin_of(o: ParseErrorOrigin) -> Origin {
    match o {
        ParseErrorOrigin::BlockSize => Origin::BlockSize,
        ParseErrorOrigin::BlockHash1 => Origin::BlockHash1,
        ParseErrorOrigin::BlockHash2 => Origin::BlockHash2,
    }
}
fn kind_of(k: ParseErrorKind) -> Option<Kind> {
    Some(match k {
        ParseErrorKind::BlockSizeIsEmpty => Kind::BlockSizeIsEmpty,
        ParseErrorKind::BlockSizeStartsWithZero => Kind::BlockSizeStartsWithZero,
        ParseErrorKind::BlockSizeIsInvalid => Kind::BlockSizeIsInvalid,
        ParseErrorKind::BlockSizeIsTooLarge => Kind::BlockSizeIsTooLarge,
        ParseErrorKind::BlockHashIsTooLong => Kind::BlockHashIsTooLong,
        ParseErrorKind::UnexpectedCharacter => Kind::UnexpectedCharacter,
        ParseErrorKind::UnexpectedEndOfString => Kind::UnexpectedEndOfString,
        _ => return None,
    })
}

pub const TYPES: [&str; 6] =
    ["RawFuzzyHash", "LongRawFuzzyHash", "FuzzyHash", "LongFuzzyHash", "DualFuzzyHash", "LongDualFuzzyHash"];
/// entry points: 0 from_bytes, 1 from_bytes_with_last_index(idx=0), 2 idem (idx=usize::MAX), 3 str::parse
pub const VARIANTS: usize = 4;

enum Outcome<T> {
    Panic(String),
    Ok(T, usize),
    Err(ParseError, usize),
    Skipped,
}

fn call<T>(
    t: &[u8],
    variant: usize,
    fb: fn(&[u8]) -> Result<T, ParseError>,
    fbi: fn(&[u8], &mut usize) -> Result<T, ParseError>,
    fs: fn(&str) -> Result<T, ParseError>,
) -> (Outcome<T>, usize) {
    let idx0 = if variant == 2 { usize::MAX } else { 0usize };
    let mut idx = idx0;
    let r = match variant {
        0 => guarded(|| fb(t)),
        1 | 2 => guarded(|| fbi(t, &mut idx)),
        _ => match std::str::from_utf8(t) {
            Ok(s) => guarded(|| fs(s)),
            Err(_) => return (Outcome::Skipped, idx0),
        },
    };
    (
        match r {
            Err(p) => Outcome::Panic(p),
            Ok(Ok(h)) => Outcome::Ok(h, idx),
            Ok(Err(e)) => Outcome::Err(e, idx),
        },
        idx0,
    )
}

fn judge_err(e: &ParseError, idx: usize, idx0: usize, variant: usize, exp: &Result<rt::Parsed, rt::Rejected>) -> Result<(), String> {
    match exp {
        Ok(_) => Err(format!("rejected with {:?}/{:?} but the grammar accepts the text", e.origin(), e.kind())),
        Err(rej) => {
            if origin_of(e.origin()) != rej.origin {
                return Err(format!("error names {:?} but the offending part is {:?}", e.origin(), rej.origin));
            }
            match kind_of(e.kind()) {
                Some(k) if rej.kinds.contains(&k) => {}
                _ => return Err(format!("error kind {:?} is not among the conditions of that part {:?}", e.kind(), rej.kinds)),
            }
            if (variant == 1 || variant == 2) && idx != idx0 {
                return Err("caller's index modified on failure".into());
            }
            Ok(())
        }
    }
}

fn check_plain<T: Plain>(t: &[u8], variant: usize) -> Result<&'static str, String> {
    let rule = Rule { cap1: 64, cap2: T::CAP2, count_normalized: T::NORM && !STRICT, strict: STRICT };
    let exp = rt::parse(t, rule);
    let (out, idx0) = call::<T>(t, variant, T::parse_bytes, T::parse_bytes_idx, T::parse_str);
    match out {
        Outcome::Skipped => Ok("skipped-not-utf8"),
        Outcome::Panic(p) => Err(format!("panic: {}", p)),
        Outcome::Ok(h, idx) => match &exp {
            Err(rej) => Err(format!(
                "accepted (is_valid={}) but the grammar rejects it: {:?} {:?}",
                h.valid(),
                rej.origin,
                rej.kinds
            )),
            Ok(p) => {
                let (e1, e2) = if T::NORM {
                    (refmodel::normalize(&p.bh1), refmodel::normalize(&p.bh2))
                } else {
                    (p.bh1.clone(), p.bh2.clone())
                };
                if !h.valid() || !h.ref_valid() {
                    return Err("Ok, but the object fails the validity check".into());
                }
                if h.log() != p.log || h.bh1() != &e1[..] || h.bh2() != &e2[..] {
                    return Err(format!("decoded content differs: got {} expected {}", h, rt::format(p.log, &e1, &e2)));
                }
                if (variant == 1 || variant == 2) && idx != p.end {
                    return Err(format!("end index {} != {}", idx, p.end));
                }
                Ok("ok")
            }
        },
        Outcome::Err(e, idx) => judge_err(&e, idx, idx0, variant, &exp).map(|_| "err"),
    }
}

fn check_dual<D: Dual>(t: &[u8], variant: usize) -> Result<&'static str, String> {
    let rule = Rule { cap1: 64, cap2: D::CAP2, count_normalized: false, strict: STRICT };
    let exp = rt::parse(t, rule);
    let (out, idx0) = call::<D>(t, variant, D::parse_bytes, D::parse_bytes_idx, D::parse_str);
    match out {
        Outcome::Skipped => Ok("skipped-not-utf8"),
        Outcome::Panic(p) => Err(format!("panic: {}", p)),
        Outcome::Ok(h, idx) => match &exp {
            Err(rej) => Err(format!(
                "accepted (is_valid={}) but the grammar rejects it: {:?} {:?}",
                guarded(|| h.valid()).unwrap_or(false),
                rej.origin,
                rej.kinds
            )),
            Ok(p) => {
                if !guarded(|| h.valid())? {
                    return Err("Ok, but the object fails the validity check".into());
                }
                let raw = guarded(|| h.to_raw())?;
                let n = h.as_norm();
                if !raw.ref_valid() || !n.ref_valid() {
                    return Err("Ok, but raw / normalized part fails the validity predicate".into());
                }
                if raw.log() != p.log
                    || raw.bh1() != &p.bh1[..]
                    || raw.bh2() != &p.bh2[..]
                    || n.log() != p.log
                    || n.bh1() != &refmodel::normalize(&p.bh1)[..]
                    || n.bh2() != &refmodel::normalize(&p.bh2)[..]
                {
                    return Err(format!("decoded content differs: raw {} norm {}", raw, n));
                }
                if (variant == 1 || variant == 2) && idx != p.end {
                    return Err(format!("end index {} != {}", idx, p.end));
                }
                Ok("ok")
            }
        },
        Outcome::Err(e, idx) => judge_err(&e, idx, idx0, variant, &exp).map(|_| "err"),
    }
}

pub fn check_one(t: &[u8], ty: usize, variant: usize) -> Result<&'static str, String> {
    // a panic escaping from the library through any call below is a violation of this case, not a crash
    guard_case(|| check_one_unguarded(t, ty, variant))
}

fn check_one_unguarded(t: &[u8], ty: usize, variant: usize) -> Result<&'static str, String> {
    match ty {
        0 => check_plain::<RawFuzzyHash>(t, variant),
        1 => check_plain::<LongRawFuzzyHash>(t, variant),
        2 => check_plain::<FuzzyHash>(t, variant),
        3 => check_plain::<LongFuzzyHash>(t, variant),
        4 => check_dual::<DualFuzzyHash>(t, variant),
        5 => check_dual::<LongDualFuzzyHash>(t, variant),
        _ => Err("bad type".into()),
    }
}

pub fn replay(c: &Value) -> Result<(), String> {
    let t = unhex(c["text_hex"].as_str().ok_or("text_hex")?);
    let ty = TYPES.iter().position(|n| Some(*n) == c["type"].as_str()).ok_or("type")?;
    let variant = c["variant"].as_u64().ok_or("variant")? as usize;
    if c["strict"].as_bool() != Some(STRICT) {
        return Err("this case was recorded under the other parser build (replay through ./check --replay)".into());
    }
    check_one(&t, ty, variant).map(|_| ())
}

fn b64s(v: &[u8]) -> Vec<u8> {
    v.iter().map(|&x| refmodel::B64[x as usize]).collect()
}

/// Block-hash texts for capacity `cap`: a run of length l of 'A' / '/' / 'b' at
/// position p with a run-free tail q — raw and normalised lengths below, at and
/// above the capacity.
fn bh_texts(cap: usize, thorough: bool) -> Vec<Vec<u8>> {
    let mut v: Vec<Vec<u8>> = vec![];
    let mut ps = vec![0usize, 1, 2];
    for p in cap.saturating_sub(8)..=cap + 1 {
        ps.push(p);
    }
    let ls: Vec<usize> = if thorough {
        vec![0, 1, 2, 3, 4, 5, 6, 7, 8, 9, 12, cap - 1, cap, cap + 1, cap + 2, cap + 3, cap + 4, cap + 5, cap + 8, cap + 10, 2 * cap, 200, 254, 255, 256, 257, 258, 259, 260, 261, 300, 511, 512, 515, 65535, 65536, 65539]
    } else {
        vec![0, 1, 3, 4, 5, 7, 8, cap, cap + 1, cap + 3, cap + 4, cap + 10, 200, 255, 256, 257, 258, 259, 260, 300, 515, 65539]
    };
    let syms: &[u8] = if thorough { &[0, 63, 27] } else { &[0, 63] };
    for &p in &ps {
        for &l in &ls {
            for &q in &[0usize, 1, 3] {
                for &sym in syms {
                    if l == 0 && sym != syms[0] {
                        continue;
                    }
                    if l > 1000 && !(p <= 1 && q <= 1 && sym == syms[0]) {
                        continue; // runs longer than 16-bit counters: a few placements only
                    }
                    let mut s = b64s(&ramp(p, 0));
                    s.extend(std::iter::repeat(refmodel::B64[sym as usize]).take(l));
                    s.extend(b64s(&ramp(q, p + 7)));
                    v.push(s);
                }
            }
        }
    }
    // two runs: first fits, second crosses the capacity raw but not normalised
    for &(l1, g, l2) in &[(4usize, 1usize, 4usize), (8, 0, 8), (5, 2, cap), (cap / 2, 1, cap / 2 + 3), (4, cap - 8, 4), (4, cap - 7, 4), (4, cap - 6, 8)] {
        let mut s = vec![b'A'; l1];
        s.extend(b64s(&ramp(g, 3)));
        s.extend(vec![b'/'; l2]);
        v.push(s.clone());
        s.push(b'x');
        v.push(s);
    }
    v.sort();
    v.dedup();
    v
}

pub fn corpus(thorough: bool) -> (Vec<Vec<u8>>, usize) {
    let valid_bs: Vec<Vec<u8>> = (0..31).map(|n| format!("{}", 3u64 << n).into_bytes()).collect();
    let mut bss: Vec<Vec<u8>> = vec![b"3".to_vec(), b"6144".to_vec(), b"3221225472".to_vec()];
    let nvalid_head = bss.len();
    for s in [
        "0", "03", "4", "16", "4294967295", "4294967296", "6442450944", "", "+3", "3 ", " 3", "3a", "00", "30", "-3",
        "99999999999999999999999999999999999999999999999999999999999999999999999999999999",
    ] {
        bss.push(s.as_bytes().to_vec());
    }
    let tails: [&[u8]; 12] = [b"", b",", b",name", b",a:b,c", b":", b"@", b"\xff", b"A", b"\n", b"\r\n", b" ", b"\t"];
    let small: Vec<Vec<u8>> = vec![
        b"".to_vec(),
        b"A".to_vec(),
        b"AAAA".to_vec(),
        b64s(&ramp(32, 3)),
        b64s(&ramp(33, 3)),
        b64s(&ramp(64, 5)),
        vec![b'A'; 38],
    ];
    let f64 = bh_texts(64, thorough);
    let f32 = bh_texts(32, thorough);
    let mk = |bs: &[u8], a: &[u8], b: &[u8], t: &[u8]| {
        let mut x = bs.to_vec();
        x.push(b':');
        x.extend(a);
        x.push(b':');
        x.extend(b);
        x.extend(t);
        x
    };
    let mut texts: Vec<Vec<u8>> = vec![];
    for (bi, bs) in bss.iter().enumerate() {
        for (ti, t) in tails.iter().enumerate() {
            if bi < nvalid_head || ti == 0 {
                for a in &f64 {
                    for b in &small {
                        if bi == 0 || ti < 2 {
                            texts.push(mk(bs, a, b, t));
                        }
                    }
                }
                for a in &small {
                    for b in f32.iter().chain(f64.iter()) {
                        if bi == 0 || ti < 2 {
                            texts.push(mk(bs, a, b, t));
                        }
                    }
                }
            } else {
                texts.push(mk(bs, b"AB", b"CD", t));
            }
        }
    }
    // every one of the 256 byte values inside / after the block size, inside either block hash, and as the terminator
    for b in 0..=255u8 {
        for (pre, post) in [
            (&b"3"[..], &b":AB:CD"[..]),
            (&b""[..], &b"3:AB:CD"[..]),
            (&b"3:AB"[..], &b"CD:EF"[..]),
            (&b"3:"[..], &b":EF"[..]),
            (&b"3:AB:CD"[..], &b"EF"[..]),
            (&b"3:AB:"[..], &b""[..]),
            (&b"3:AB:CD"[..], &b""[..]),
            (&b"3:AB:CD"[..], &b"x:y"[..]),
        ] {
            let mut t = pre.to_vec();
            t.push(b);
            t.extend_from_slice(post);
            texts.push(t);
        }
    }
    // powers of two, and the neighbours of every valid size
    for n in 0..=34u32 {
        texts.push(mk(format!("{}", 1u128 << n).as_bytes(), b"AB", b"CD", b""));
    }
    for n in 0..31u32 {
        for d in [-2i128, -1, 1, 2, 3] {
            texts.push(mk(format!("{}", (3i128 << n) + d).as_bytes(), b"AB", b"CD", b""));
        }
    }
    // spellings that are a valid block size modulo 2^32 (wrap-around of the accumulator), modulo 2^64, and
    // valid sizes with a digit appended / prepended
    for n in 0..31u32 {
        let v = 3u128 << n;
        for k in [1u128, 2, 3, 5, 10] {
            texts.push(mk(format!("{}", v + (k << 32)).as_bytes(), b"AB", b"CD", b""));
        }
        texts.push(mk(format!("{}", v + (1u128 << 64)).as_bytes(), b"AB", b"CD", b""));
        texts.push(mk(format!("{}0", v).as_bytes(), b"AB", b"CD", b""));
        texts.push(mk(format!("1{}", v).as_bytes(), b"AB", b"CD", b""));
        texts.push(mk(format!("0{}", v).as_bytes(), b"AB", b"CD", b""));
    }
    // a run of every one of the 64 symbols at the start, in the middle and at the end of either block hash
    for sym in 0..64u8 {
        let c = refmodel::B64[sym as usize];
        for k in [1usize, 2, 3, 4, 5, 9] {
            let run = vec![c; k];
            let mut mid = b"Bc".to_vec();
            mid.extend(&run);
            mid.extend(b"dE");
            let mut end = b"Bcd".to_vec();
            end.extend(&run);
            for bh in [&run, &mid, &end] {
                texts.push(mk(b"3", bh, b"", b""));
                texts.push(mk(b"6", b"x", bh, b",n"));
            }
        }
    }
    // every valid block size spelling, with small contents and every tail
    for bs in &valid_bs {
        for t in tails.iter() {
            texts.push(mk(bs, b"AB", b"CD", t));
            texts.push(mk(bs, b"AAAAB", b"", t));
        }
    }
    // truncated texts
    for a in &small {
        let mut x = b"3:".to_vec();
        x.extend(a);
        texts.push(x.clone());
        x.push(b',');
        texts.push(x);
    }
    for s in ["3", "", ":", "::", "3::", "3:::", "3::,", ",", "3,:"] {
        texts.push(s.as_bytes().to_vec());
    }
    texts.sort();
    texts.dedup();
    let nbase = texts.len();
    // deviation 1: every single-byte edit of strided seeds
    let nseeds = if thorough { 2000 } else { 400 };
    // (texts with very long runs are not edit seeds: one edit per offset of a 64 KiB text is not a small deviation family)
    let seeds: Vec<Vec<u8>> = texts.iter().filter(|t| t.len() <= 320).step_by((nbase / nseeds).max(1)).cloned().collect();
    let bytes = [b':', b',', b'A', b'/', b'0', b'9', b'@', 0u8, 0x80, 0xff, b'\n', b'\r', b' ', b'='];
    let mut edits: Vec<Vec<u8>> = vec![];
    let edit1 = |s: &Vec<u8>, out: &mut Vec<Vec<u8>>| {
        for pos in 0..=s.len() {
            for &c in &bytes {
                let mut x = s.clone();
                x.insert(pos, c);
                out.push(x);
                if pos < s.len() && s[pos] != c {
                    let mut y = s.clone();
                    y[pos] = c;
                    out.push(y);
                }
            }
            if pos < s.len() {
                let mut z = s.clone();
                z.remove(pos);
                out.push(z);
            }
            // truncation at every offset
            out.push(s[..pos].to_vec());
        }
    };
    for s in &seeds {
        edit1(s, &mut edits);
    }
    // deviation 2 (thorough): every pair of edits on a small set of short seeds
    if thorough {
        let short: Vec<Vec<u8>> = vec![
            b"3:AB:CD".to_vec(),
            b"6:AAAAB:C,x".to_vec(),
            b"12:AAAA:".to_vec(),
            mk(b"3", &vec![b'A'; 66], b"B", b""),
            mk(b"3", b"B", &vec![b'A'; 34], b",n"),
        ];
        for s in &short {
            let mut e1 = vec![];
            edit1(s, &mut e1);
            e1.sort();
            e1.dedup();
            for x in e1.iter() {
                if x.len() <= 14 {
                    edit1(x, &mut edits);
                }
            }
        }
    }
    texts.extend(edits);
    texts.sort();
    texts.dedup();
    // simplest first, so that the first recorded counterexample is a shortest one
    texts.sort_by(|a, b| a.len().cmp(&b.len()).then_with(|| a.cmp(b)));
    (texts, nbase)
}

pub fn run(ctx: &Ctx) -> Report {
    let mut rep = Report::new("model_checking");
    let thorough = ctx.tier == Tier::Thorough;
    let (texts, nbase) = corpus(thorough);
    let shards = 256usize;
    let per = (texts.len() + shards - 1) / shards;
    let acc = par_shards(shards, |s, acc| {
        let lo = s * per;
        let hi = ((s + 1) * per).min(texts.len());
        for ti in lo..hi.max(lo) {
            let t = &texts[ti];
            for ty in 0..6 {
                for variant in 0..VARIANTS {
                    match check_one(t, ty, variant) {
                        Ok("skipped-not-utf8") => {
                            acc.bump("skipped-not-utf8");
                        }
                        Ok(o) => {
                            acc.evaluations += 1;
                            acc.bump(&format!("{}:{}", TYPES[ty], o));
                        }
                        Err(e) => {
                            acc.evaluations += 1;
                            let class: String = e.split(|c| c == ':' || c == '(').next().unwrap_or("").trim().to_string();
                            acc.violation(
                                format!("{} entry{} [{}] text={}", TYPES[ty], variant, class, show(&t[..t.len().min(90)])),
                                e,
                                json!({"text_hex": hex(t), "text": show(t), "type": TYPES[ty], "variant": variant, "strict": STRICT}),
                            );
                        }
                    }
                }
            }
            acc.nontrivial += 1;
            if ti % 50_000 == 7 {
                acc.sample(json!({"text": show(t)}));
            }
        }
    });
    acc.into_report(&mut rep, if STRICT { "parse_strict_parser_build" } else { "parse_default_parser_build" });
    rep.set("texts", texts.len());
    rep.set("grammar_texts_deviation_0", nbase);
    rep.set("edited_texts_deviation_1_2", texts.len() - nbase);
    rep.set("strict_parser_build", STRICT);
    rep.set("exhaustive", true);
    rep.set(
        "rule",
        "texts = products of block-size spellings (31 valid; 0, 03, 4, 16, 2^32-1, 2^32, every valid size + k*2^32 and + 2^64, with a digit appended / prepended, 80 digits, empty, signs, spaces) x block-hash texts (a run of length l at position p with tail q: raw / normalised lengths below, at, above the capacities 32 and 64; two-run overflow texts) x tails (none, comma, name, colon, '@', 0xff, 'A', LF, CRLF, blank, tab); every one of the 256 byte values at 8 structural positions; runs of 1..9 of every one of the 64 symbols at the start / middle / end of either block hash; deviation 1 = every single-byte insert/replace/delete/truncate at every offset of strided seeds with bytes {: , A / 0 9 @ = 00 80 ff LF CR blank}; deviation 2 (thorough) = all pairs of edits of five short seeds.  Texts are de-duplicated (distinct_nontrivial counts distinct texts); each is parsed into all six types through from_bytes, from_bytes_with_last_index (index preset 0 and usize::MAX) and str::parse.  evaluations counts parses.",
    );
    rep.assume("the error *kind* only has to be one of the error conditions the offending field exhibits (a field can be both too long and wrongly terminated); the offset is a hint and is not checked");
    rep.assume("under the strict parser a field of exactly N symbols followed by a non-terminator may be reported as too long (that scanner stops after N symbols)");
    rep
}
