//! Binds the reference models to ground truth that does not come from ffuzzy's
//! code: libfuzzy vectors (the repository's data files were produced by
//! libfuzzy), the two multi-GiB libfuzzy vectors quoted in the suite, the README
//! scores.  A failure is a machinery error (exit 3), never a verdict.

use crate::corpus;
use refmodel::ctph::Ctph;

pub fn run() -> Result<(), String> {
    corpus::validate_words()?;
    // hello world
    let d = refmodel::ctph::ctph(0, b"Hello, World!\n").map_err(|_| "ctph")?;
    if d.text_trunc() != "3:aaX8v:aV" {
        return Err(format!("hello world: {}", d.text_trunc()));
    }
    let d = refmodel::ctph::ctph(0, b"Hello, World!").map_err(|_| "ctph")?;
    if d.text_trunc() != "3:aaX8n:aF" {
        return Err(format!("hello world 1: {}", d.text_trunc()));
    }
    let d = refmodel::ctph::ctph(0, b"").map_err(|_| "ctph")?;
    if d.text_trunc() != "3::" {
        return Err("empty".into());
    }
    // libfuzzy multi-GiB vectors (96 GiB and 96 GiB + 1)
    {
        let mut r = Ctph::new(96 * (1u64 << 30) - 448);
        for _ in 0..64 {
            r.feed_all(&corpus::W30B);
        }
        let d = r.digest().map_err(|_| "ctph")?;
        let i64s = "i".repeat(64);
        if d.text_long() != format!("1610612736:{}:{}", i64s, i64s)
            || d.text_trunc() != format!("1610612736:{}:{}C", i64s, "i".repeat(31))
        {
            return Err(format!("96GiB vector: {} / {}", d.text_long(), d.text_trunc()));
        }
        r.feed(1);
        let d = r.digest().map_err(|_| "ctph")?;
        if d.text_trunc() != format!("3221225472:{}H:k", "i".repeat(63)) {
            return Err(format!("96GiB+1 vector: {}", d.text_trunc()));
        }
        // closed-form zero skipping agrees with feeding zeros
        let mut a = Ctph::new(5);
        a.feed_all(&corpus::W[3]);
        a.feed_all(&[0; 7]);
        let mut b = a.clone();
        a.skip_zeros(1000);
        for _ in 0..1000 {
            b.feed(0);
        }
        if a != b {
            return Err("skip_zeros".into());
        }
    }
    // README scores
    let sc = |a: &str, b: &str| -> Result<u32, String> {
        let rule = refmodel::text::Rule { cap1: 64, cap2: 64, count_normalized: true, strict: false };
        let pa = refmodel::text::parse(a.as_bytes(), rule).map_err(|_| "parse")?;
        let pb = refmodel::text::parse(b.as_bytes(), rule).map_err(|_| "parse")?;
        Ok(refmodel::score(pa.log, &pa.bh1, &pa.bh2, pb.log, &pb.bh1, &pb.bh2))
    };
    if sc(
        "6:3ll7QzDkmJmMHkQoO/llSZEnEuLszmbMAWn:VqDk5QtLbW",
        "6:3ll7QzDkmQjmMoDHglHOxPWT0lT0lT0lB:VqDk+n",
    )? != 46
    {
        return Err("README score 46".into());
    }
    if sc(
        "12288:+ySwl5P+C5IxJ845HYV5sxOH/cccccccei:+Klhav84a5sxJ",
        "12288:+yUwldx+C5IxJ845HYV5sxOH/cccccccex:+glvav84a5sxK",
    )? != 88
    {
        return Err("README score 88".into());
    }
    // the repository's libfuzzy vectors, when the data files are present
    let idx = "/repo/ffuzzy/data/testsuite/generate-small.ssdeep.txt";
    if let Ok(s) = std::fs::read_to_string(idx) {
        let mut n = 0;
        for ln in s.lines() {
            if ln.is_empty() || ln.starts_with('#') {
                continue;
            }
            let tk: Vec<&str> = ln.split_whitespace().collect();
            if tk.len() < 3 {
                continue;
            }
            let flags: u8 = tk[1].parse().map_err(|_| "flags")?;
            if flags & 4 != 0 {
                continue; // normalised vectors
            }
            let data = match std::fs::read(format!("/repo/ffuzzy/{}", tk[0])) {
                Ok(d) => d,
                Err(_) => continue,
            };
            let d = refmodel::ctph::ctph(0, &data).map_err(|_| "ctph")?;
            if flags & 1 != 0 && d.text_trunc() != tk[2] {
                return Err(format!("libfuzzy vector {} trunc: {} != {}", tk[0], d.text_trunc(), tk[2]));
            }
            if flags & 2 != 0 && d.text_long() != tk[2] {
                return Err(format!("libfuzzy vector {} long: {} != {}", tk[0], d.text_long(), tk[2]));
            }
            n += 1;
        }
        if n < 100 {
            return Err(format!("only {} libfuzzy vectors found", n));
        }
    }
    Ok(())
}
