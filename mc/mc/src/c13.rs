//! C13 — size limits and block-size choice over the whole 0..192 GiB range.
//!
//! E-LOCKSTEP from `hook(N)` (H1, validated against really feeding zeros):
//! every block-size border 192*2^n + delta is reached *exactly* as zero prefix
//! + crafted suffix, in every update form, with and without the size hint.

use crate::c01::{case_json, form_from, form_name, run_case, start_generator, start_generator_dirty_kind, validate_hook, Chunk};
use crate::common::*;
use crate::corpus;
use crate::gen_util::*;
use refmodel::ctph::Ctph;
use serde_json::{json, Value};
use ssdeep::{Generator, GeneratorError};

const MAX: u64 = 192u64 << 30;

pub fn replay(c: &Value) -> Result<(), String> {
    match c["kind"].as_str() {
        Some("warn") => warn_case(c["size"].as_u64().ok_or("size")?),
        Some("limit") => limit_case(c["size"].as_u64().ok_or("size")?),
        Some("hook_vs_real") => hook_vs_real(c["n"].as_u64().ok_or("n")?),
        Some("border_late") => guard_case(|| {
            // the late-declaration clones live in border_case itself: run exactly that
            let zp = c["zero_prefix"].as_u64().ok_or("zero_prefix")?;
            let mut chunks = vec![];
            for ch in c["chunks"].as_array().ok_or("chunks")? {
                chunks.push(Chunk {
                    word: unhex(ch["word"].as_str().ok_or("word")?),
                    count: ch["count"].as_u64().ok_or("count")? as usize,
                    form: form_from(ch["form"].as_str().ok_or("form")?).ok_or("form name")?,
                });
            }
            let mut acc = Acc::default();
            border_case(zp, &chunks, c["hint"].as_u64(), &mut acc, "replay", c["dirty_start"].as_u64().unwrap_or(0) as u8);
            match acc.violations.first() {
                Some(v) => Err(v.what.clone()),
                None => Ok(()),
            }
        }),
        _ => run_case(c),
    }
}

/// `may_warn_about_small_input_size()` is true exactly for sizes below 4097.
fn warn_case(size: u64) -> Result<(), String> {
    // a panic escaping from the library through any call below is a violation of this case, not a crash
    guard_case(|| warn_case_unguarded(size))
}

fn warn_case_unguarded(size: u64) -> Result<(), String> {
    let g = Generator::verif_new_with_prefix_zeroes(size);
    let w = guarded(|| g.may_warn_about_small_input_size())?;
    if w != (size < 4097) {
        return Err(format!("may_warn at size {} = {}", size, w));
    }
    // a declared size decides, whatever was fed
    let mut g2 = Generator::new();
    if size <= MAX {
        g2.set_fixed_input_size(size).map_err(|e| format!("{:?}", e))?;
        if g2.may_warn_about_small_input_size() != (size < 4097) {
            return Err(format!("may_warn with declared size {}", size));
        }
    }
    Ok(())
}

/// exactly the limit is accepted, anything above is rejected at finalisation
/// (and as a declaration) with the size-too-large errors.
fn limit_case(size: u64) -> Result<(), String> {
    // a panic escaping from the library through any call below is a violation of this case, not a crash
    guard_case(|| limit_case_unguarded(size))
}

fn limit_case_unguarded(size: u64) -> Result<(), String> {
    let g = Generator::verif_new_with_prefix_zeroes(size);
    let r = Ctph::new(size);
    if let Some(m) = mismatch(&g, &r) {
        return Err(m);
    }
    let fin = guarded(|| g.finalize())?;
    if size <= MAX {
        if fin.is_err() {
            return Err(format!("size {} rejected: {:?}", size, fin));
        }
    } else if fin != Err(GeneratorError::InputSizeTooLarge) {
        return Err(format!("size {} gives {:?}", size, fin));
    }
    // the classification helper of the error type
    if !GeneratorError::InputSizeTooLarge.is_size_too_large_error()
        || !GeneratorError::FixedSizeTooLarge.is_size_too_large_error()
        || GeneratorError::FixedSizeMismatch.is_size_too_large_error()
        || GeneratorError::OutputOverflow.is_size_too_large_error()
    {
        return Err("is_size_too_large_error() misclassifies an error".into());
    }
    let mut g2 = Generator::new();
    let before = format!("{:?}", g2);
    let res = guarded(|| g2.set_fixed_input_size(size))?;
    if size <= MAX {
        if res.is_err() {
            return Err(format!("declaring {} refused: {:?}", size, res));
        }
        // the usize form (the one hash_buf uses) accepts exactly the same sizes and leads to the same result
        if let Ok(u) = usize::try_from(size) {
            let mut g3 = Generator::verif_new_with_prefix_zeroes(size);
            let r3 = guarded(|| g3.set_fixed_input_size_in_usize(u))?;
            if r3.is_err() {
                return Err(format!("declaring {} through the usize form refused: {:?}", size, r3));
            }
            let mut g4 = Generator::verif_new_with_prefix_zeroes(size);
            let _ = guarded(|| g4.set_fixed_input_size(size))?;
            let (f3, f4) = (guarded(|| g3.finalize())?, guarded(|| g4.finalize())?);
            if f3 != f4 || f3 != fin {
                return Err(format!("size {}: finalize after the usize declaration {:?}, after the u64 declaration {:?}, undeclared {:?}", size, f3, f4, fin));
            }
        }
    } else {
        if res != Err(GeneratorError::FixedSizeTooLarge) {
            return Err(format!("declaring {} gives {:?}", size, res));
        }
        if format!("{:?}", g2) != before {
            return Err(format!("refused declaration {} changed the generator", size));
        }
        if let Ok(u) = usize::try_from(size) {
            let res = guarded(|| g2.set_fixed_input_size_in_usize(u))?;
            if res != Err(GeneratorError::FixedSizeTooLarge) || format!("{:?}", g2) != before {
                return Err(format!("declaring {} (usize) gives {:?}", size, res));
            }
        }
    }
    Ok(())
}

/// hook(N) renders exactly like a generator that really consumed N zero bytes.
fn hook_vs_real(n: u64) -> Result<(), String> {
    // a panic escaping from the library through any call below is a violation of this case, not a crash
    guard_case(|| hook_vs_real_unguarded(n))
}

fn hook_vs_real_unguarded(n: u64) -> Result<(), String> {
    let mut real = Generator::new();
    let zeros = vec![0u8; 1 << 20];
    let mut left = n;
    while left > 0 {
        let k = left.min(zeros.len() as u64) as usize;
        real.update(&zeros[..k]);
        left -= k as u64;
    }
    if format!("{:?}", real) != format!("{:?}", Generator::verif_new_with_prefix_zeroes(n)) {
        return Err(format!("hook({}) differs from really feeding {} zero bytes", n, n));
    }
    Ok(())
}

/// One border case: zero prefix + suffix W_k^m (+ optional hint), one form.
fn border_case(zp: u64, chunks: &[Chunk], hint: Option<u64>, acc: &mut Acc, sigp: &str, dirty: u8) {
    let case_json = |zp: u64, chunks: &[Chunk], hint: Option<u64>| {
        let mut c = case_json(zp, chunks, hint);
        c["dirty_start"] = json!(dirty);
        c
    };
    let late_json = |zp: u64, chunks: &[Chunk], hint: Option<u64>| {
        let mut c = case_json(zp, chunks, hint);
        c["kind"] = json!("border_late");
        c
    };
    let mut g = if dirty > 0 { start_generator_dirty_kind(zp, dirty) } else { start_generator(zp) };
    let mut r = Ctph::new(zp);
    acc.evaluations += 1;
    acc.nontrivial += 1;
    if let Some(h) = hint {
        match guarded(|| g.set_fixed_input_size(h)) {
            Ok(Ok(())) => {
                // a second, different (much smaller) declaration is refused and must change nothing
                if dirty == 0 && h > 16 {
                    let r2 = guarded(|| g.set_fixed_input_size(h / 4096));
                    if r2 != Ok(Err(GeneratorError::FixedSizeMismatch)) {
                        acc.violation(format!("{} second declaration", sigp), format!("second declaration {} after {} returned {:?}", h / 4096, h, r2), case_json(zp, chunks, hint));
                        return;
                    }
                }
            }
            Ok(Err(e)) => {
                if h <= MAX {
                    acc.violation(format!("{} hint", sigp), format!("hint {} refused: {:?}", h, e), case_json(zp, chunks, hint));
                } else {
                    acc.bump("hint_refused_too_large");
                }
                return;
            }
            Err(p) => {
                acc.violation(format!("{} hint", sigp), format!("panic: {}", p), case_json(zp, chunks, hint));
                return;
            }
        }
    }
    // late declarations (only in the undeclared runs): a clone that declares the true total after the first
    // group of chunks and is fed in step from then on, and a clone that declares it after the last byte; both
    // must finalize exactly like the undeclared generator
    let total: u64 = zp + chunks.iter().map(|c| c.word.len() as u64 * c.count as u64).sum::<u64>();
    let mut late: Option<Generator> = None;
    for (ci, c) in chunks.iter().enumerate() {
        for i in 0..c.count {
            let res = guarded(|| feed(&mut g, &c.word, c.form));
            if let Some(l) = late.as_mut() {
                if let Err(p) = guarded(|| feed(l, &c.word, c.form)) {
                    acc.violation(format!("{} late", sigp), format!("panic in update after a mid-stream declaration: {}", p), late_json(zp, chunks, hint));
                    return;
                }
            }
            r.feed_all(&c.word);
            let last = ci + 1 == chunks.len() && i + 1 == c.count;
            if hint.is_none() && total <= MAX && res.is_ok() && ((ci == 0 && i + 1 == c.count) || last) {
                let mut l = g.clone();
                match guarded(|| l.set_fixed_input_size(total)) {
                    Ok(Ok(())) => {}
                    other => {
                        acc.violation(format!("{} late", sigp), format!("declaring the true total {} after feeding returned {:?}", total, other), late_json(zp, chunks, hint));
                        return;
                    }
                }
                if last {
                    for cand in [Some(&l), late.as_ref()].into_iter().flatten() {
                        if let Some(m) = mismatch(cand, &r) {
                            acc.violation(format!("{} late", sigp), format!("after a late declaration of the true total {}: {}", total, m), late_json(zp, chunks, hint));
                            return;
                        }
                    }
                    acc.bump("late_declarations_checked");
                } else {
                    late = Some(l);
                }
            }
            let bad = match res {
                Err(p) => Some(format!("panic in update: {}", p)),
                Ok(()) => {
                    if hint.is_none() || last {
                        mismatch(&g, &r)
                    } else {
                        None
                    }
                }
            };
            if let Some(m) = bad {
                acc.violation(sigp.to_string(), m, late_json(zp, chunks, hint));
                return;
            }
        }
    }
    match r.digest() {
        Ok(d) => {
            acc.bump(&format!("log={:02}", d.log));
            acc.max("max_block_index_in_result", d.log as u64);
            if d.log == 30 && d.bh2_long.len() == 1 {
                acc.count("results_using_last_piece_hash", 1);
            }
        }
        Err(_) => acc.bump("too_large"),
    }
}

pub fn run(ctx: &Ctx) -> Report {
    let mut rep = Report::new("model_checking");
    let thorough = ctx.tier == Tier::Thorough;
    if let Err(e) = validate_hook(ctx) {
        eprintln!("mc: hook validation failed (machinery error, not a verdict): {}", e);
        std::process::exit(6);
    }

    // ---- hook(N) == really feeding N zeros, for N up to 2^20 (quick) / around borders up to n = 26 (thorough)
    let mut hv: Vec<u64> = vec![];
    for n in 0..=ctx.tier.pick(13u32, 24) {
        for d in [-1i64, 0, 1] {
            hv.push(((192u64 << n) as i64 + d) as u64);
        }
    }
    hv.extend([1u64 << 20, (1 << 20) + 5, 4096, 4097]);
    let acc = par_shards(hv.len(), |i, acc| {
        acc.evaluations += 1;
        acc.nontrivial += 1;
        if let Err(e) = hook_vs_real(hv[i]) {
            acc.violation(format!("hook_vs_real n={}", hv[i]), e, json!({"kind":"hook_vs_real","n":hv[i]}));
        }
        if i == 0 {
            acc.sample(json!({"kind":"hook_vs_real","n":hv[i]}));
        }
    });
    let hook_bad = acc.violation_count;
    acc.into_report(&mut rep, "hook_equals_real_zero_feeding");
    if hook_bad > 0 {
        // a hook mismatch is a machinery error, unless the generator mishandles zero bytes,
        // which C01 (real zeros) decides; here it is reported as is.
        rep.set("note_hook", "hook(N) differs from really feeding N zero bytes: either the hook or the generator's zero-byte handling is wrong (C01 feeds real zeros)");
    }

    // ---- borders: 192*2^n + delta, suffix W_k^m
    let ms: Vec<usize> = if thorough { vec![1, 2, 31, 32, 33, 63, 64, 65, 66] } else { vec![31, 32, 33, 64, 65] };
    let acc = par_shards(31 * 5, |i, acc| {
        let n = (i / 5) as i64;
        let delta = (i % 5) as i64 - 2;
        let total = ((192u64 << n) as i64 + delta) as u64;
        let ks: Vec<i64> = (0..=30).collect();
        for &k in &ks {
            for &m in ms.iter() {
                let sl = 7 * m as u64;
                if total < sl {
                    continue;
                }
                let zp = total - sl;
                for (fi, &form) in FORMS4.iter().enumerate() {
                    for hint in [None, Some(total)] {
                        let chunks = vec![Chunk { word: corpus::W[k as usize].to_vec(), count: m, form }];
                        for dirty in [0u8, 1, 2] {
                            let sigp = format!("border n={} delta={} W{}^{} {} hint={}{}", n, delta, k, m, form_name(form), hint.is_some(), if dirty > 0 { " reused-generator" } else { "" });
                            border_case(zp, &chunks, hint, acc, &sigp, dirty);
                        }
                        if n == 30 && delta == 0 && k == 30 && m == 64 && fi == 0 && hint.is_none() {
                            acc.sample(case_json(zp, &chunks, hint));
                        }
                    }
                }
            }
        }
    });
    acc.into_report(&mut rep, "borders_zero_prefix_plus_trigger_suffix");

    // ---- piece-poor inputs (zero prefix + a short tail) at every border, fresh and reused generator
    let acc = par_shards(31 * 5, |i, acc| {
        let n = (i / 5) as i64;
        let delta = (i % 5) as i64 - 2;
        let total = ((192u64 << n) as i64 + delta) as u64;
        // short tails: ordinary bytes, one trigger word, zeros, and the words with extreme / zero rolling-hash values
        let mut tails: Vec<&[u8]> = vec![&b"Hello, World!\n"[..], &[1u8][..], &corpus::W[0][..], &corpus::Z[..], &corpus::U[..]];
        for w in corpus::CORNER_WORDS.iter() {
            tails.push(&w.1[..]);
        }
        for tail in tails {
            if total < tail.len() as u64 {
                continue;
            }
            let zp = total - tail.len() as u64;
            for &form in &FORMS4 {
                for hint in [None, Some(total)] {
                    for dirty in [0u8, 1, 2] {
                        let chunks = vec![Chunk { word: tail.to_vec(), count: 1, form }];
                        let sigp = format!("piece-poor n={} delta={} tail={}B {} hint={}{}", n, delta, tail.len(), form_name(form), hint.is_some(), if dirty > 0 { " reused-generator" } else { "" });
                        border_case(zp, &chunks, hint, acc, &sigp, dirty);
                    }
                }
            }
        }
    });
    acc.into_report(&mut rep, "piece_poor_inputs_at_every_border_fresh_and_reused_generator");

    // ---- two-segment suffixes and mid-stream zero gaps: pieces first, then a long zero run
    //      (in-place hook), then more pieces; the total lands on a border +- 1
    let gap_ns: Vec<u32> = if thorough { (0..=30).collect() } else { vec![3, 6, 13, 21, 29, 30] };
    let acc = par_shards(gap_ns.len() * 3, |i, acc| {
        let n = gap_ns[i / 3];
        let delta = (i % 3) as i64 - 1;
        let total = ((192u64 << n) as i64 + delta) as u64;
        let ks: Vec<usize> = {
            let mut v = vec![0usize, (n as usize).saturating_sub(1), n as usize, (n as usize + 1).min(30), 30];
            v.sort();
            v.dedup();
            v
        };
        for &ka in &ks {
            for &kb in &ks {
                for &(m1, m2) in &[(1usize, 64usize), (33, 33), (64, 1), (65, 65), (32, 31)] {
                    let used = 7 * (m1 + m2) as u64 + 7;
                    if total < used {
                        continue;
                    }
                    let gap = total - used;
                    for &form in &FORMS4 {
                        for hint in [None, Some(total)] {
                            acc.evaluations += 1;
                            acc.nontrivial += 1;
                            let case = json!({
                                "zero_prefix": 0, "hint": hint,
                                "chunks": [
                                    {"word": hex(&corpus::W[ka]), "count": m1, "form": form_name(form)},
                                    {"word": hex(&corpus::Z), "count": 1, "form": form_name(form)},
                                    {"skip_zeros": gap},
                                    {"word": hex(&corpus::W[kb]), "count": m2, "form": form_name(form)},
                                ]});
                            if let Err(e) = run_case(&case) {
                                acc.violation(
                                    format!("gap n={} delta={} W{}^{} zeros W{}^{} {} hint={}", n, delta, ka, m1, kb, m2, form_name(form), hint.is_some()),
                                    e,
                                    case.clone(),
                                );
                            }
                            if n == 30 && delta == 0 && ka == 30 && kb == 30 && m1 == 1 && hint.is_none() && form == Form::Slice {
                                acc.sample(case);
                            }
                        }
                    }
                }
            }
        }
    });
    acc.into_report(&mut rep, "pieces_then_zero_gap_then_pieces_total_on_border");

    // ---- limits and the small-input warning
    let mut lim: Vec<u64> = vec![];
    for d in -3i64..=3 {
        lim.push((MAX as i64 + d) as u64);
        lim.push(((96u64 << 30) as i64 + d) as u64);
    }
    lim.extend([u64::MAX, u64::MAX - 1, 1 << 63, MAX * 2, 0, 1]);
    let acc = par_shards(lim.len(), |i, acc| {
        acc.evaluations += 1;
        acc.nontrivial += 1;
        if let Err(e) = limit_case(lim[i]) {
            acc.violation(format!("limit size={}", lim[i]), e, json!({"kind":"limit","size":lim[i]}));
        }
        acc.bump(if lim[i] <= MAX { "accepted" } else { "rejected" });
        if lim[i] == MAX + 1 {
            acc.sample(json!({"kind":"limit","size":lim[i]}));
        }
    });
    acc.into_report(&mut rep, "hard_limit");
    // feeding on at sizes near u64::MAX: the size counter must not wrap around into the accepted range
    let acc = par_shards(6 * 5, |i, acc| {
        let start = u64::MAX - [0u64, 1, 6, 7, 8, 500][i / 5];
        let form = FORMS[i % FORMS.len()];
        let case = json!({"zero_prefix": start, "hint": null, "chunks": [{"word": hex(&corpus::W[3]), "count": 70, "form": form_name(form)}]});
        acc.evaluations += 1;
        acc.nontrivial += 1;
        if let Err(e) = run_case(&case) {
            acc.violation(format!("size counter near u64::MAX start={} {}", start, form_name(form)), e, case.clone());
        }
        if i == 0 {
            acc.sample(case);
        }
    });
    acc.into_report(&mut rep, "size_counter_saturates_near_u64_max");
    let acc = par_shards(8201 + 31 * 5, |i, acc| {
        let size = if i <= 8200 {
            i as u64
        } else {
            let j = i - 8201;
            ((192u64 << (j / 5)) as i64 + (j % 5) as i64 - 2) as u64
        };
        acc.evaluations += 1;
        acc.nontrivial += 1;
        if let Err(e) = warn_case(size) {
            acc.violation(format!("warn size={}", size), e, json!({"kind":"warn","size":size}));
        }
        acc.bump(if size < 4097 { "warns" } else { "no_warning" });
    });
    acc.into_report(&mut rep, "small_input_warning_every_size_to_8200_and_borders");

    rep.set("exhaustive", true);
    rep.set(
        "rule",
        "late declarations: every undeclared border case also carries a clone that declares the true total after the first group of chunks (and is fed in step from then on) and a clone that declares it after the last byte; both must be accepted and finalize exactly like the reference.  for every n in 0..=30 and delta in -2..=2 the total size 192*2^n+delta is reached exactly as hook(zero prefix) + W_k^m with every k in 0..=30, m in {31,32,33,64,65} (thorough: {1,2,31,32,33,63,64,65,66}), in the slice / iterator / byte forms, without and with the correct size hint, on a fresh generator and on two kinds of reused ones (all 31 contexts populated by an earlier input / an earlier input digested under a small declared size; then reset()); after an accepted hint a second, much smaller declaration is attempted and must be refused without effect; the same for piece-poor inputs (zero prefix + a short tail); plus 'pieces, 7 real zero bytes, in-place zero skip, pieces' histories whose total lands on a border +-1; plus all sizes 0..=8200 and all borders for the warning; plus sizes around 96 GiB, 192 GiB and u64::MAX for the hard limit.  All cases are distinct by construction; non-trivial = the library is called and compared with the reference.",
    );
    rep.assume("sizes above a few MiB are reached through hook H1 (zero prefix / in-place zero skip), whose equivalence with really feeding zeros is checked exhaustively for N < 4096 (thorough: 65536), around every border up to 192*2^13 (thorough: 2^24 ~ 3 GiB) and inductively (step(hook(N),0) == hook(N+1)) around every border up to 192 GiB");
    rep.assume("refmodel::ctph is ssdeep 2.14.1 (self-test)");
    rep
}
