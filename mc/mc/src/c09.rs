//! C09 — the common-substring pre-filter is exact.

use crate::common::*;
use crate::corpus::all_strings;
use serde_json::{json, Value};
use ssdeep::internal_comparison::{BlockHashPositionArray, BlockHashPositionArrayImpl};
use ssdeep::{FuzzyHashCompareTarget, LongFuzzyHash};

fn pa_of(a: &[u8]) -> Result<BlockHashPositionArray, String> {
    let mut pa = BlockHashPositionArray::new();
    guarded(|| pa.init_from(a))?;
    Ok(pa)
}

fn via_pa(pa: &BlockHashPositionArray, a: &[u8], b: &[u8]) -> Result<bool, String> {
    // a panic escaping from the library through any call below is a violation of this case, not a crash
    guard_case(|| via_pa_unguarded(pa, a, b))
}

fn via_pa_unguarded(pa: &BlockHashPositionArray, a: &[u8], b: &[u8]) -> Result<bool, String> {
    let exp = refmodel::has_common_7gram(a, b);
    let got = guarded(|| pa.has_common_substring(b))?;
    if got != exp {
        return Err(format!("has_common_substring = {} but the naive scan says {}", got, exp));
    }
    // the pre-filter as the scoring functions apply it: for normalized strings of at least 7 symbols the raw score
    // is non-zero exactly when there is a common substring
    if a.len() >= 7 && b.len() >= 7 && refmodel::is_normalized(a) && refmodel::is_normalized(b) {
        let sc = guarded(|| pa.score_strings_raw(b))?;
        if (sc != 0) != exp {
            return Err(format!("score_strings_raw = {} but the naive scan says common substring = {}", sc, exp));
        }
    }
    Ok(got)
}

/// One ordered pair through every route (position array; comparison target's
/// block hash accessors; the candidate test at equal block sizes).
pub fn check_pair(a: &[u8], b: &[u8]) -> Result<bool, String> {
    // a panic escaping from the library through any call below is a violation of this case, not a crash
    guard_case(|| check_pair_unguarded(a, b))
}

fn check_pair_unguarded(a: &[u8], b: &[u8]) -> Result<bool, String> {
    let pa = pa_of(a)?;
    let got = via_pa(&pa, a, b)?;
    if refmodel::is_normalized(a) && refmodel::is_normalized(b) {
        let ha = guarded(|| LongFuzzyHash::new_from_internals_near_raw(5, a, &[]))?;
        let hb = guarded(|| LongFuzzyHash::new_from_internals_near_raw(5, b, &[]))?;
        // the targets are re-used objects: each held the OTHER string first (in the same and in the other block hash)
        let mut t = FuzzyHashCompareTarget::from(&hb);
        guarded(|| t.init_from(&ha))?;
        if guarded(|| t.block_hash_1().has_common_substring(b))? != got {
            return Err("target.block_hash_1().has_common_substring disagrees".into());
        }
        if guarded(|| t.is_comparison_candidate(&hb))? != got {
            return Err("is_comparison_candidate (block hash 1, equal sizes) disagrees".into());
        }
        let ha2 = guarded(|| LongFuzzyHash::new_from_internals_near_raw(5, &[], a))?;
        let hb2 = guarded(|| LongFuzzyHash::new_from_internals_near_raw(5, &[], b))?;
        let mut t2 = FuzzyHashCompareTarget::from(&hb2);
        guarded(|| t2.init_from(&ha2))?;
        if guarded(|| t2.block_hash_2().has_common_substring(b))? != got || guarded(|| t2.is_comparison_candidate(&hb2))? != got {
            return Err("block hash 2 route disagrees".into());
        }
        // cross sizes: a.bh2 against b.bh1 (a half the size of b) and the mirror
        let hb_up = guarded(|| LongFuzzyHash::new_from_internals_near_raw(6, b, &[]))?;
        if guarded(|| t2.is_comparison_candidate(&hb_up))? != got {
            return Err("is_comparison_candidate (near-lt: bh2 vs bh1) disagrees".into());
        }
        let hb_dn = guarded(|| LongFuzzyHash::new_from_internals_near_raw(4, &[], b))?;
        if guarded(|| t.is_comparison_candidate(&hb_dn))? != got {
            return Err("is_comparison_candidate (near-gt: bh1 vs bh2) disagrees".into());
        }
        // the pre-filter as the hash-level comparison applies it (its own shortcut paths for block sizes one
        // step apart): a non-zero score needs a common substring, and a common substring gives a non-zero score
        for (x, y, what) in [(&ha2, &hb_up, "a.bh2 ~ b.bh1"), (&ha, &hb_dn, "a.bh1 ~ b.bh2"), (&hb_up, &ha2, "mirror"), (&hb_dn, &ha, "mirror")] {
            let sc = guarded(|| x.compare(y))?;
            if (sc != 0) != got {
                return Err(format!("hash-level compare at adjacent block sizes ({}) = {} but common substring = {}", what, sc, got));
            }
        }
    }
    Ok(got)
}

pub fn replay(c: &Value) -> Result<(), String> {
    let a = unhex(c["a"].as_str().ok_or("a")?);
    let b = unhex(c["b"].as_str().ok_or("b")?);
    if let Some(prev) = c["reuse_prev"].as_str() {
        let prev = unhex(prev);
        let mode = c["reuse_mode"].as_u64().unwrap_or(2);
        let mut pa = BlockHashPositionArray::new();
        guarded(|| {
            pa.init_from(&prev);
            match mode {
                0 => pa.init_from(&[]),
                1 => pa.clear(),
                _ => {}
            }
            pa.init_from(&a);
        })?;
        via_pa(&pa, &a, &b)?;
    }
    check_pair(&a, &b).map(|_| ())
}
fn case(a: &[u8], b: &[u8]) -> Value {
    json!({"a": hex(a), "b": hex(b)})
}

fn pairs_section(rep: &mut Report, name: &str, left: &[Vec<u8>], right: &[Vec<u8>], full_stride: usize) {
    let acc = par_shards(left.len(), |i, acc| {
        let a = &left[i];
        // a re-used position array: it held a string of the right-hand family before (often one that shares
        // windows with the strings it is then compared with), and every third one was emptied in between
        let prev = &right[(i * 13 + 5) % right.len()];
        let pa = {
            let mut pa = BlockHashPositionArray::new();
            let r = guarded(|| {
                pa.init_from(prev);
                match i % 3 {
                    0 => pa.init_from(&[]),
                    1 => pa.clear(),
                    _ => {}
                }
                pa.init_from(a);
            });
            match r {
                Ok(()) => pa,
                Err(e) => {
                    acc.violation(format!("init_from a={}", hex(a)), e, json!({"a": hex(a), "b": "", "reuse_prev": hex(prev), "reuse_mode": i % 3}));
                    return;
                }
            }
        };
        for (j, b) in right.iter().enumerate() {
            acc.evaluations += 1;
            if a.len() >= 7 && b.len() >= 7 {
                acc.nontrivial += 1;
            }
            let r = if full_stride > 0 && (i * 31 + j) % full_stride == 0 { check_pair(a, b) } else { via_pa(&pa, a, b) };
            match r {
                Ok(true) => acc.count("answers_true", 1),
                Ok(false) => acc.count("answers_false", 1),
                Err(e) => acc.violation(format!("a={} b={}", hex(a), hex(b)), e, json!({"a": hex(a), "b": hex(b), "reuse_prev": hex(prev), "reuse_mode": i % 3})),
            }
        }
        if i == left.len() - 1 {
            acc.sample(case(a, &right[right.len() / 2]));
        }
    });
    acc.into_report(rep, name);
}

pub fn run(ctx: &Ctx) -> Report {
    let mut rep = Report::new("model_checking");
    let thorough = ctx.tier == Tier::Thorough;
    // B1: all pairs over small alphabets (strings shorter than 7 are trivially "false" and counted as trivial)
    let a2 = all_strings(&[0, 63], ctx.tier.pick(10, 11));
    let b2 = all_strings(&[0, 63], ctx.tier.pick(12, 14));
    pairs_section(&mut rep, "B1_all_pairs_alphabet2", &a2, &b2, 4099);
    let a3 = all_strings(&[0, 1, 63], ctx.tier.pick(7, 8));
    let b3 = all_strings(&[0, 1, 63], ctx.tier.pick(8, 9));
    pairs_section(&mut rep, "B1_all_pairs_alphabet3", &a3, &b3, 4099);

    // B2: a shared window planted at every (offset in a, offset in b), lengths 5..8 (5 and 6 are near-misses)
    let acc = par_shards(65 * 4, |idx, acc| {
        let la = idx / 4;
        let m = 5 + idx % 4;
        if la < m {
            return;
        }
        // a: run-free ramp over symbols 1..=62; junk in b uses symbols 0 and 63 only
        let a: Vec<u8> = (0..la).map(|i| (1 + i % 62) as u8).collect();
        let pa = match pa_of(&a) {
            Ok(p) => p,
            Err(_) => return,
        };
        for lb in m..=64usize {
            for oa in 0..=(la - m) {
                for ob in 0..=(lb - m) {
                    let mut b: Vec<u8> = (0..lb).map(|i| if i % 2 == 0 { 0 } else { 63 }).collect();
                    b[ob..ob + m].copy_from_slice(&a[oa..oa + m]);
                    acc.evaluations += 1;
                    acc.nontrivial += 1;
                    let full = (oa + 3 * ob + lb) % 257 == 0;
                    let r = if full { check_pair(&a, &b) } else { via_pa(&pa, &a, &b) };
                    match r {
                        Ok(true) => acc.count("answers_true", 1),
                        Ok(false) => acc.count("answers_false", 1),
                        Err(e) => acc.violation(format!("planted m={} la={} lb={} oa={} ob={}", m, la, lb, oa, ob), e, case(&a, &b)),
                    }
                    if la == 20 && lb == 20 && oa == 3 && ob == 9 {
                        acc.sample(json!({"planted_window_len": m, "a": hex(&a), "b": hex(&b)}));
                    }
                }
            }
        }
    });
    acc.into_report(&mut rep, "B2_window_planted_at_every_offset_pair_len_5_to_8");

    // B4: decoys.  b = [a stretch of a's symbols that shares no window with a] [a symbol that is not in a]
    // [a real window of a] (and the mirror), every decoy length 7..=12, every window position, separator present / absent
    let acc = par_shards(58, |idx, acc| {
        let la = 7 + idx;
        let a: Vec<u8> = (0..la).map(|i| (1 + i % 62) as u8).collect();
        let pa = match pa_of(&a) {
            Ok(p) => p,
            Err(_) => return,
        };
        for dl in 7..=12usize.min(la) {
            // decoy: the first dl symbols of a, reversed (no common 7-gram with a, whose symbols ascend)
            let decoy: Vec<u8> = a[..dl].iter().rev().copied().collect();
            for oa in 0..=(la - 7) {
                for sep in [Some(0u8), Some(63), None] {
                    for mirror in [false, true] {
                        for m in [6usize, 7] {
                            let win = &a[oa..oa + m];
                            let mut b: Vec<u8> = vec![];
                            let (first, second): (&[u8], &[u8]) = if mirror { (win, &decoy) } else { (&decoy, win) };
                            b.extend_from_slice(first);
                            if let Some(s) = sep {
                                b.push(s);
                            }
                            b.extend_from_slice(second);
                            if b.len() > 64 {
                                continue;
                            }
                            acc.evaluations += 1;
                            acc.nontrivial += 1;
                            match via_pa(&pa, &a, &b) {
                                Ok(true) => acc.count("answers_true", 1),
                                Ok(false) => acc.count("answers_false", 1),
                                Err(e) => acc.violation(format!("decoy la={} dl={} oa={} sep={:?} mirror={} m={}", la, dl, oa, sep, mirror, m), e, case(&a, &b)),
                            }
                        }
                    }
                }
            }
        }
        if idx == 10 {
            acc.sample(json!({"decoy_family_a_len": la}));
        }
    });
    acc.into_report(&mut rep, "B4_decoy_stretch_separator_real_window");

    // B5: a string against ITSELF and against its one-symbol extensions through the full route (identical block hashes
    // shorter than 7 symbols share no window although they are equal), every string over {0,1,63} up to 8 symbols
    {
        let short = all_strings(&[0, 1, 63], 8);
        let acc = par_shards(short.len(), |i, acc| {
            let a = &short[i];
            let mut others: Vec<Vec<u8>> = vec![a.clone()];
            for c in [0u8, 63] {
                let mut x = a.clone();
                x.push(c);
                others.push(x);
            }
            for b in &others {
                acc.evaluations += 1;
                if a.len() >= 6 {
                    acc.nontrivial += 1;
                }
                match check_pair(a, b) {
                    Ok(true) => acc.count("answers_true", 1),
                    Ok(false) => acc.count("answers_false", 1),
                    Err(e) => acc.violation(format!("self a={} b={}", hex(a), hex(b)), e, case(a, b)),
                }
            }
            if i == 500 {
                acc.sample(case(a, a));
            }
        });
        acc.into_report(&mut rep, "B5_every_short_string_against_itself_full_route");
    }

    // B3: repeated / overlapping occurrences and low-entropy strings
    let totals: Vec<usize> = if thorough { (0..=64).collect() } else { vec![6, 7, 8, 13, 14, 15, 31, 32, 63, 64] };
    let mut low: Vec<Vec<u8>> = vec![];
    for &t in &totals {
        for i in 0..=t {
            let mut s = vec![0u8; i];
            s.extend(vec![63u8; t - i]);
            low.push(s.clone());
            let mut r = vec![63u8; i];
            r.extend(vec![0u8; t - i]);
            low.push(r);
        }
    }
    for p in 1..=4usize {
        for pat in all_strings(&[0, 7, 63], p).into_iter().filter(|s| s.len() == p) {
            for &len in &[7usize, 8, 13, 14, 33, 64] {
                low.push((0..len).map(|k| pat[k % p]).collect());
            }
        }
    }
    low.sort();
    low.dedup();
    pairs_section(&mut rep, "B3_low_entropy_two_run_and_periodic_all_pairs", &low, &low, 4099);
    rep.set("exhaustive", true);
    rep.set(
        "rule",
        "B5: every string over {0,1,63} of up to 8 symbols against itself and its one-symbol extensions through every route, including the hash-level compare at adjacent block sizes (non-zero score <=> common substring).  B4: b = a reversed stretch of a's own symbols (7..12, no shared window) + an optional symbol that is not in a + a real (7) or near-miss (6) window of a at every offset, and the mirror order, for every |a| in 7..=64.  Every position-array answer is also compared with the scoring route (score_strings_raw non-zero <=> common substring, for normalized strings).  B1: ALL ordered pairs over alphabets of size 2 (|a|<=10,|b|<=12; thorough 11/14) and 3 (7/8; thorough 8/9); B2: a = run-free ramp of every length la<=64, b = junk over two symbols not in a, of every length lb<=64, with a copy of a[oa..oa+m] planted at ob for EVERY (oa, ob) and m in {5,6,7,8} (m<7 are near-misses); B3: all pairs of two-run and periodic strings (repeated, overlapping occurrences).  Oracle: naive scan.  The position array used for each left string is a re-used object (it held a string of the right-hand family before; every third one was emptied in between), and the comparison targets are re-initialised objects that held the other string first.  A strided subset also goes through FuzzyHashCompareTarget (block_hash_1/2 accessors and is_comparison_candidate at equal, half and double block size).  Non-trivial = both strings have at least 7 symbols.",
    );
    rep
}
